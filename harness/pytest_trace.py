# pytest plugin (behaviour source 4): runs the repository's own tests with every public write
# request of every Traph recorded from outside, so that their traces can be validated by TLC
# like any other.  Loaded with  -p pytest_trace  and PYTHONPATH=/verif/harness ; nothing in
# /repo is modified.  Output: a pickle of concrete traces at $VERIF_TRACE_OUT.
import os
import pickle

import impl            # installs the recording storages in traph.traph
from impl import tt, rule_regex

KNOWN_RULES = {}
for _r in ({"k": "domain"}, {"k": "subdomain"}, {"k": "path", "n": 1}, {"k": "path", "n": 2},
           {"k": "path", "n": 3}, {"k": "path", "n": 4}):
    KNOWN_RULES[rule_regex(_r)] = _r

TRACES = []
BY_FOLDER = {}
DEPTH = [0]
CURRENT_TEST = [""]


def enc(x):
    return x.encode("utf-8") if isinstance(x, str) else bytes(x)


def rule_kind(pattern):
    if isinstance(pattern, str):
        pattern = pattern.encode("utf-8")
    return KNOWN_RULES.get(pattern)


class Shim(object):
    """Looks like harness impl.Index for observe()/raw()."""

    def __init__(self, t):
        self.t = t
        self.backend = "memory" if t.in_memory else "file"

    def raw(self):
        return self.t.lru_trie_storage.raw(), self.t.links_store_storage.raw()


class Tracer(object):
    def __init__(self, t, default, rules):
        self.steps = []
        self.ops = []
        self.default = default
        self.rules = rules
        self.ok = True
        self.test = CURRENT_TEST[0]
        self.backend = "memory" if t.in_memory else "file"

    def snap(self, t, op, res, w):
        if not self.ok:
            return
        try:
            sh = Shim(t)
            raw_t, raw_l = sh.raw()
            del impl.WRITE_LOG[:]
            obs = impl.observe(sh)
            del impl.WRITE_LOG[:]
            st = {"op": op, "w": w, "rawT": raw_t, "rawL": raw_l, "obs": obs}
            if op != "Init":
                st["res"] = res
                self.ops.append(op)
            self.steps.append(st)
        except Exception:
            self.ok = False


def wrap_init(orig):
    def __init__(self, *a, **kw):
        folder = kw.get("folder", a[0] if a else None)
        pre_exists = bool(folder) and os.path.isfile(os.path.join(folder, "lru_trie.dat")) \
            and os.path.getsize(os.path.join(folder, "lru_trie.dat")) > 0 and not kw.get("overwrite", False)
        del impl.WRITE_LOG[:]
        DEPTH[0] += 1
        try:
            orig(self, *a, **kw)
        finally:
            DEPTH[0] -= 1
        w = list(impl.WRITE_LOG)
        del impl.WRITE_LOG[:]
        if DEPTH[0] or kw.get("debug"):
            return
        d = rule_kind(kw.get("default_webentity_creation_rule") or b"")
        rules, good = [], d is not None
        for anchor, pat in (kw.get("webentity_creation_rules") or {}).items():
            k = rule_kind(pat)
            if k is None:
                good = False
                break
            rules.append((enc(anchor), k))
        if not good:
            self._vt = None
            return
        if pre_exists:
            tr = BY_FOLDER.get(folder)
            self._vt = tr
            if tr is not None:
                tr.snap(self, {"op": "Reopen", "def": d, "rules": rules}, {"exc": "", "pages": 0, "created": []}, w)
            return
        tr = Tracer(self, d, rules)
        self._vt = tr
        if folder:
            BY_FOLDER[folder] = tr
        TRACES.append(tr)
        tr.snap(self, "Init", None, w)
    return __init__


def recorder(name, build):
    """Wrap a public write method; build(args, kwargs) -> op dict (or None: untraceable)."""
    def deco(orig):
        def method(self, *a, **kw):
            tr = getattr(self, "_vt", None)
            if DEPTH[0] or tr is None or not tr.ok:
                DEPTH[0] += 1
                try:
                    return orig(self, *a, **kw)
                finally:
                    DEPTH[0] -= 1
            try:
                op = build(a, kw)
            except Exception:
                op = None
            if op is None:
                tr.ok = False
                return orig(self, *a, **kw)
            del impl.WRITE_LOG[:]
            DEPTH[0] += 1
            res = {"exc": "", "pages": 0, "created": []}
            try:
                out = orig(self, *a, **kw)
                if hasattr(out, "nb_created_pages"):
                    res.update(impl.report_dict(out))
                return out
            except Exception as e:
                res["exc"] = impl.exc_name(e)
                raise
            finally:
                DEPTH[0] -= 1
                w = list(impl.WRITE_LOG)
                del impl.WRITE_LOG[:]
                tr.snap(self, op, res, w)
        return method
    return deco


def arg(a, kw, i, name, default=None):
    if name in kw:
        return kw[name]
    return a[i] if len(a) > i else default


def install():
    T = tt.Traph
    T.__init__ = wrap_init(T.__init__)
    T.add_page = recorder("AddPage", lambda a, kw: {"op": "AddPage", "l": enc(arg(a, kw, 0, "lru")),
                                                     "cr": bool(arg(a, kw, 1, "crawled", False))})(T.add_page)
    T.add_pages = recorder("AddPages", lambda a, kw: {"op": "AddPages", "ls": [enc(x) for x in arg(a, kw, 0, "lrus")],
                                                       "cr": bool(arg(a, kw, 1, "crawled", False))})(T.add_pages)
    T.add_links = recorder("AddLinks", lambda a, kw: {"op": "AddLinks", "pairs": [(enc(s), enc(t)) for s, t in
                                                                                   list(arg(a, kw, 0, "links"))]})(T.add_links)
    T.index_batch_crawl = recorder("IndexBatchCrawl", lambda a, kw: {
        "op": "IndexBatchCrawl", "data": [(enc(s), [enc(x) for x in tg]) for s, tg in arg(a, kw, 0, "data").items()]
    })(T.index_batch_crawl)
    T.create_webentity = recorder("CreateWe", lambda a, kw: {"op": "CreateWe", "ps": [enc(x) for x in arg(a, kw, 0, "prefixes")]})(T.create_webentity)
    T.delete_webentity = recorder("DeleteWe", lambda a, kw: (
        {"op": "DeleteWe", "id": arg(a, kw, 0, "weid"), "ps": [enc(x) for x in arg(a, kw, 1, "weid_prefixes")]}
        if arg(a, kw, 2, "check_for_corruption", True) else None))(T.delete_webentity)
    T.add_prefix_to_webentity = recorder("AddPrefix", lambda a, kw: {"op": "AddPrefix", "p": enc(arg(a, kw, 0, "prefix")),
                                                                      "id": arg(a, kw, 1, "weid")})(T.add_prefix_to_webentity)
    T.remove_prefix_from_webentity = recorder("RemovePrefix", lambda a, kw: {
        "op": "RemovePrefix", "p": enc(arg(a, kw, 0, "prefix")), "id": arg(a, kw, 1, "weid", False) or 0})(T.remove_prefix_from_webentity)
    T.move_prefix_to_webentity = recorder("MovePrefix", lambda a, kw: {
        "op": "MovePrefix", "p": enc(arg(a, kw, 0, "prefix")), "to": arg(a, kw, 1, "weid_target"),
        "frm": arg(a, kw, 2, "weid_source", False) or 0})(T.move_prefix_to_webentity)

    def rule_op(a, kw):
        k = rule_kind(arg(a, kw, 1, "pattern"))
        if k is None:
            return None
        return {"op": "AddRule", "anchor": enc(arg(a, kw, 0, "rule_prefix")), "rule": k,
                "wr": bool(arg(a, kw, 2, "write_in_trie", True))}
    T.add_webentity_creation_rule = recorder("AddRule", rule_op)(T.add_webentity_creation_rule)
    T.remove_webentity_creation_rule = recorder("RemoveRule", lambda a, kw: {
        "op": "RemoveRule", "anchor": enc(arg(a, kw, 0, "rule_prefix"))})(T.remove_webentity_creation_rule)

    def clear_op(a, kw):
        d = arg(a, kw, 0, "default_webentity_creation_rule")
        r = arg(a, kw, 1, "webentity_creation_rules")
        if d is None or r is None:
            return None
        dk = rule_kind(d)
        rr = [(enc(x), rule_kind(p)) for x, p in r.items()]
        if dk is None or any(k is None for _, k in rr):
            return None
        return {"op": "Clear", "def": dk, "rules": rr}
    T.clear = recorder("Clear", clear_op)(T.clear)
    # generator variants used directly by a test cannot be expressed as one request
    for nm in ("index_batch_crawl_iter", "add_webentity_creation_rule_iter"):
        orig = getattr(T, nm)

        def mk(orig):
            def method(self, *a, **kw):
                tr = getattr(self, "_vt", None)
                if not DEPTH[0] and tr is not None:
                    tr.ok = False
                return orig(self, *a, **kw)
            return method
        setattr(T, nm, mk(orig))


install()


def pytest_runtest_setup(item):
    CURRENT_TEST[0] = item.nodeid


def pytest_sessionfinish(session, exitstatus):
    out = os.environ.get("VERIF_TRACE_OUT")
    if not out:
        return
    data = []
    for tr in TRACES:
        if tr.ok and len(tr.steps) >= 2:
            data.append({"backend": tr.backend, "def": tr.default, "rules": tr.rules, "steps": tr.steps,
                         "ops": tr.ops, "test": tr.test})
    with open(out, "wb") as f:
        pickle.dump({"traces": data, "total": len(TRACES), "untraceable": sum(1 for t in TRACES if not t.ok)}, f)
