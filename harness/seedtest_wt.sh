#!/bin/sh
# usage: seedtest_wt.sh <patch-file> <label> <PID>...
# Same as seedtest.sh but on a scratch worktree (VERIF_REPO), leaving /repo alone: for use while other
# runs are using /repo.  The registered procedure (apply to /repo, run, undo) is seedtest.sh.
patch=$1; label=$2; shift; shift
wt=$(mktemp -d /tmp/vt_wt_XXXXXX); rmdir $wt
git -C /repo worktree add -q --detach $wt HEAD || exit 2
trap 'git -C /repo worktree remove --force '$wt' 2>/dev/null' EXIT INT TERM
git -C $wt apply $patch || { echo "seed=$label patch does not apply"; exit 2; }
cd ${VDIR:-/verif}
for p in "$@"; do
  out=$(VERIF_REPO=$wt ./check $p --tier ${TIER:-quick} 2>&1); rc=$?
  nv=$(echo "$out" | grep -c '^VIOLATION')
  first=$(echo "$out" | grep '^VIOLATION' | head -1 | sed 's/.*clause=//' | cut -c1-150)
  drift=$(echo "$out" | grep -c '^MODEL-DRIFT')
  echo "seed=$label check=$p exit=$rc violations=$nv drift=$drift first=[$first]"
  if [ $rc -eq 2 ]; then echo "$out" | tail -15; fi
done
