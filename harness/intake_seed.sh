#!/bin/sh
# usage: intake_seed.sh <agent-worktree> <seed-name> <PID> [round-text]
# Confirms a sub-agent's seeded change (tests pass with it, demo fails with it and passes without), stores it under
# seeded/<seed-name>/, removes the worktree, and runs the quick check of the property on a scratch worktree.
wt=$1; n=$2; p=$3; round=${4:-"independent sub-agent given only the property text and a scratch worktree"}
res=$(/verif/harness/verify_seed.sh $wt) || { echo "$n: verify failed: $res"; exit 1; }
echo "$n: $res"
case "$res" in *"pristine_demo_exit=0 patched_demo_exit=1 patched_tests=31 passed"*) ;; *) echo "$n: NOT CONFIRMED, not stored"; exit 1;; esac
mkdir -p /verif/seeded/$n && cp $wt/_seed/patch.diff $wt/_seed/demo.py $wt/_seed/NOTES.md /verif/seeded/$n/
python3 - "$p" "$n" "$round" <<'PY'
import json,sys,subprocess
p,n,r=sys.argv[1:]
head=subprocess.check_output(['git','-C','/repo','log','--format=%h','-1']).decode().strip()
notes=open(f'/verif/seeded/{n}/NOTES.md').read()
json.dump({"property":p,"source":r,"needs_to_manifest":notes.strip()[:1500],
 "confirmed":{"how":"harness/verify_seed.sh in a scratch worktree of /repo HEAD "+head,"patched_tests":"31 passed","patched_demo_exit":1,"pristine_demo_exit":0},
 "detected_by":[]},open(f'/verif/seeded/{n}/meta.json','w'),indent=1)
PY
git -C /repo worktree remove --force $wt
/verif/harness/seedtest_wt.sh /verif/seeded/$n/patch.diff $n $p
