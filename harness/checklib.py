# The check driver: per property, (1) TLC model-checks the property's configuration(s)
# exhaustively, (2) behaviours are generated and replayed into the real code, (3) TLC
# validates the recorded traces against the specification, (4) verdicts, replay files,
# evidence.  Exit 0 = held on everything explored, 1 = VIOLATION, 2 = machinery failure.
import base64
import hashlib
import json
import os
import re
import shutil
import sys
import tempfile
import time

HERE = os.path.dirname(os.path.abspath(__file__))
VERIF = os.path.dirname(HERE)
sys.path.insert(0, HERE)


class Machinery(Exception):
    pass


def b2s(x):
    """JSON-safe encoding of concrete values (bytes -> {'b64':...})."""
    if isinstance(x, (bytes, bytearray)):
        return {"b64": base64.b64encode(bytes(x)).decode("ascii"), "txt": bytes(x).decode("latin-1")}
    if isinstance(x, dict):
        return {k: b2s(v) for k, v in x.items()}
    if isinstance(x, (list, tuple)):
        return [b2s(v) for v in x]
    return x


def s2b(x):
    if isinstance(x, dict):
        if set(x) >= {"b64"} and set(x) <= {"b64", "txt"}:
            return base64.b64decode(x["b64"])
        return {k: s2b(v) for k, v in x.items()}
    if isinstance(x, list):
        return [s2b(v) for v in x]
    return x


# ---------------------------------------------------------------------------------------
# Exhaustive model checking of a configuration
# ---------------------------------------------------------------------------------------
MC_STATS = re.compile(r"(\d+) states generated, (\d+) distinct states found, (\d+) states left on queue")


def run_mc(name, workdir, level=None, timeout=3000, simulate=None, tier="quick"):
    """Run spec/mc/<name>/MC_<name> exhaustively.  Returns dict(states, distinct, wall, ok)."""
    import runner
    label = name
    name, _, variant = name.partition(":")         # "coopnet:slow" = spec/mc/coopnet/MC_coopnet_slow.cfg
    src = os.path.join(VERIF, "spec", "mc", name)
    wd = os.path.join(workdir, "mc_" + label.replace(":", "_"))
    shutil.copytree(src, wd)
    cfg = "MC_%s%s.cfg" % (name, "_" + variant if variant else "")
    if name == "coop" and tier != "thorough" and level != "full":
        cfg = "MC_coop2.cfg"
    if name == "pag" and not variant and tier == "thorough":
        cfg = "MC_pag_full.cfg"
    if level is not None and level != "full":
        p = os.path.join(wd, cfg)
        txt = open(p).read()
        txt = re.sub(r"MaxLevel\s*=\s*\d+", "MaxLevel = %d" % level, txt)
        open(p, "w").write(txt)
    extra = []   # -coverage makes TLC orders of magnitude slower on the recursive operators
    rc, out, wall = runner.tlc(wd, "MC_%s" % name, cfg=cfg, workers=os.environ.get("VERIF_MC_WORKERS", "16"),
                               extra=extra, timeout=timeout)
    m = MC_STATS.search(out)
    ok = "Model checking completed. No error has been found." in out
    res = {"config": label, "ok": ok, "wall": round(wall, 1),
           "states": int(m.group(1)) if m else 0, "distinct": int(m.group(2)) if m else 0,
           "level": level}
    if not ok:
        res["tail"] = out[-4000:]
        mv = re.search(r"Invariant (\w+) is violated", out)
        res["violated"] = mv.group(1) if mv else ""
    # per-action coverage: an action never taken means the model did not exercise it
    cov = {}
    for mm in re.finditer(r"<(\w+) line \d+, col \d+ to line \d+, col \d+ of module (\w+)>: (\d+):(\d+)", out):
        cov[mm.group(1)] = max(cov.get(mm.group(1), 0), int(mm.group(4)))
    res["action_coverage"] = cov
    return res


# ---------------------------------------------------------------------------------------
# Known findings
# ---------------------------------------------------------------------------------------
def load_known():
    p = os.path.join(VERIF, "known_findings.json")
    if not os.path.exists(p):
        return []
    return json.load(open(p)).get("findings", [])


# ---------------------------------------------------------------------------------------
# Evidence
# ---------------------------------------------------------------------------------------
def write_evidence(pid, tier, seed, coverage, wall, violations, assumptions, level="model_checking"):
    os.makedirs(os.path.join(VERIF, "evidence"), exist_ok=True)
    ev = {"property_id": pid, "tier": tier, "seed": seed, "level": level, "coverage": coverage,
          "assumptions": assumptions, "wall_s": round(wall, 2), "violations": violations}
    path = os.path.join(VERIF, "evidence", pid + ".json")
    with open(path, "w") as f:
        json.dump(ev, f, indent=1, sort_keys=True)
    return path


def save_replay(pid, trace, clauses, extra=None):
    os.makedirs(os.path.join(VERIF, "replays"), exist_ok=True)
    body = {"property": pid, "backend": trace["backend"], "def": trace["def"],
            "rules": b2s(trace["rules"]), "ops": b2s(trace["ops"]), "src": trace.get("src", ""),
            "failing": clauses}
    if trace.get("abort"):
        body["abort"] = trace["abort"]
    if extra:
        body.update(b2s(extra))
    blob = json.dumps(body, sort_keys=True)
    h = hashlib.sha1(blob.encode()).hexdigest()[:12]
    path = os.path.join(VERIF, "replays", "%s-%s.json" % (pid, h))
    with open(path, "w") as f:
        f.write(json.dumps(body, indent=1, sort_keys=True))
    return path
