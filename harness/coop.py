# Cooperative interleaving (C16): several generator requests of the real Traph advanced
# with next() in a given schedule, every loop iteration a yield point.
import random
import warnings

import impl
import gen
from abstraction import concrete_steps_to_trace
import hooks as hooks_mod
from hooks import guarded, _webentities


always_yield = impl.always_yield


def make_scenario(seed, profile, backend):
    """Setup history + 2-3 generator requests over a small universe."""
    d = gen.Driver(seed, profile, backend)
    rng = d.rng
    setup_n = rng.choice([2, 3, 4, 6])
    gens = []
    ncrawl = rng.choice([2, 2, 2, 3])
    return d, setup_n, ncrawl


def start_gen(t, g):
    if g["kind"] == "crawl":
        data = {}
        for s, tg in g["data"]:
            data[s] = list(tg)
        return t.index_batch_crawl_iter(data, 1)
    if g["kind"] == "rule":
        return t.add_webentity_creation_rule_iter(g["anchor"], impl.rule_regex(g["rule"]), write_in_trie=True)
    if g["kind"] == "qpages":
        return t.get_webentity_pages_iter(g["id"], list(g["ps"]))
    if g["kind"] == "qnet":
        return t.get_webentities_links_iter(out=g["out"], include_auto=g["auto"])
    if g["kind"] == "qcrawled":
        return t.get_webentity_crawled_pages_iter(g["id"], list(g["ps"]))
    if g["kind"] == "qoutlinks":
        return t.get_webentity_outlinks_iter(g["id"], list(g["ps"]))
    if g["kind"] == "qinlinks":
        return t.get_webentity_inlinks_iter(g["id"], list(g["ps"]))
    if g["kind"] == "qpagelinks":
        return t.get_webentity_pagelinks_iter(g["id"], list(g["ps"]), include_inbound=True, include_internal=True,
                                              include_outbound=True)
    if g["kind"] == "qchildren":
        return t.get_webentity_child_webentities_iter(g["id"], list(g["ps"]))
    if g["kind"] == "qnetslow":
        return t.get_webentities_links_slow_iter(out=g["out"], include_auto=g["auto"])
    if g["kind"] == "qtop":
        return t.get_webentity_most_linked_pages_iter(g["id"], list(g["ps"]), pages_count=g["k"],
                                                      max_depth=None if g["depth"] < 0 else g["depth"])
    raise impl.MachineryError("unknown generator kind %r" % g["kind"])


def moment(t, g):
    """The answer the query would give if asked right now (sequence of hashable items)."""
    k = g["kind"]
    if k == "qpages":
        v, e = guarded(lambda: [p["lru"] for p in t.get_webentity_pages(g["id"], list(g["ps"]))])
        return v or []
    if k == "qcrawled":
        v, e = guarded(lambda: [p["lru"] for p in t.get_webentity_crawled_pages(g["id"], list(g["ps"]))])
        return v or []
    if k == "qoutlinks":
        v, e = guarded(lambda: sorted((x or 0) for x in t.get_webentity_outlinks(g["id"], list(g["ps"]))))
        return v or []
    if k == "qinlinks":
        v, e = guarded(lambda: sorted((x or 0) for x in t.get_webentity_inlinks(g["id"], list(g["ps"]))))
        return v or []
    if k == "qpagelinks":
        v, e = guarded(lambda: [[s, tg] for s, tg, w in t.get_webentity_pagelinks(
            g["id"], list(g["ps"]), include_inbound=True, include_internal=True, include_outbound=True)])
        return v or []
    if k == "qchildren":
        v, e = guarded(lambda: sorted(t.get_webentity_child_webentities(g["id"], list(g["ps"]))))
        return v or []
    if k == "qtop":
        v, e = guarded(lambda: [p["lru"] for p in t.get_webentity_most_linked_pages(
            g["id"], list(g["ps"]), pages_count=TOP_ALL, max_depth=None if g["depth"] < 0 else g["depth"])])
        return v or []
    v, e = guarded(lambda: t.get_webentities_links(out=g["out"], include_auto=g["auto"]))
    out = []
    for s, cnt in (v or {}).items():
        for k in cnt:
            if k not in ("pages_crawled", "pages_uncrawled"):
                out.append([s, k])
    return out


def result_items(g, res):
    k = g["kind"]
    if k in ("qpages", "qcrawled"):
        return [p["lru"] for p in (res or [])]
    if k in ("qoutlinks", "qinlinks", "qchildren"):
        return sorted((x or 0) for x in (res or []))
    if k == "qpagelinks":
        return [[s, tg] for s, tg, w in (res or [])]
    if k == "qtop":
        return [p["lru"] for p in (res or [])]
    out = []
    for s, cnt in (res or {}).items():
        for k in cnt:
            if k not in ("pages_crawled", "pages_uncrawled"):
                out.append([s, k])
    return out


TOP_ALL = 1000      # "every page": the answer of a most-linked query is then a set of pages with bounds


def bounded(g):
    """Queries whose answer is a set of items that qualify or not at each moment."""
    return g["kind"].startswith("q") and not (g["kind"] == "qtop" and g["k"] < TOP_ALL)


def record_result(g, state, op, results, j):
    results[j] = result_items(g, state.result)
    k = g["kind"]
    if k in ("qpages", "qcrawled"):
        op["result"] = list(results[j])
    if k in ("qnet", "qnetslow"):
        op["net"] = net_triples(state.result)
    if k in ("qoutlinks", "qinlinks", "qchildren"):
        op["weids"] = list(results[j])
    if k == "qpagelinks":
        op["net"] = [{"s": s, "t": tg, "w": w} for s, tg, w in (state.result or [])]
    if k == "qtop":
        op["top"] = [{"l": p["lru"], "n": p["indegree"]} for p in (state.result or [])]


def net_triples(graph):
    out = []
    for s, cnt in (graph or {}).items():
        for k, w in cnt.items():
            if k not in ("pages_crawled", "pages_uncrawled"):
                out.append({"s": s, "t": k, "w": w})
    return out


def run_coop(seed, profile, backend, tid, hook=None):
    """One scenario, one schedule -> a concrete trace."""
    d, setup_n, ncrawl = make_scenario(seed, profile, backend)
    rng = d.rng
    default0, rules0 = dict(d.default), list(d.rules)
    del impl.WRITE_LOG[:]
    ix = impl.Index(backend, default0, rules0)
    steps, ops = [], []

    def snap(op, res, q=None):
        w = list(impl.WRITE_LOG)
        raw_t, raw_l = ix.raw()
        del impl.WRITE_LOG[:]
        obs = impl.observe(ix)
        st = {"op": op, "res": res, "w": w, "rawT": raw_t, "rawL": raw_l, "obs": obs, "q": q}
        steps.append(st)
        return obs
    try:
        with always_yield():
            obs = snap("Init", None)
            steps[0].pop("res")
            reattr = rng.random() < 0.5
            focus = None
            for i in range(setup_n + (1 if reattr else 0)):
                op = d.draw(obs)
                if i == setup_n:
                    # the last setup request re-attributes an existing prefix without creating a webentity
                    wmap = {}
                    for l_, w_ in obs["we"]:
                        wmap.setdefault(w_, []).append(l_)
                    op = (d.make(rng.choice(["MovePrefix", "RemovePrefix", "AddPrefix", "DeleteWe"]), wmap)
                          if wmap else None) or op
                    # preferably the webentity of one END of an existing link: the link queries that follow
                    # have to resolve that end again
                    def owner_of(l_):
                        best = None
                        for w_, ps_ in wmap.items():
                            for p_ in ps_:
                                if l_.startswith(p_) and (best is None or len(p_) > len(best[1])):
                                    best = (w_, p_)
                        return best
                    ends = [(s_, t_) for s_, t_, _ in obs["outs"] if owner_of(s_) and owner_of(t_)
                            and owner_of(s_)[0] != owner_of(t_)[0]]
                    if ends and rng.random() < 0.7:
                        s_, t_ = rng.choice(ends)
                        (wt_, pt_), (ws_, _) = owner_of(t_), owner_of(s_)
                        r_ = rng.random()
                        if r_ < 0.4:
                            op = {"op": "MovePrefix", "p": pt_, "to": ws_, "frm": rng.choice([0, wt_])}
                        elif r_ < 0.7:
                            op = {"op": "RemovePrefix", "p": pt_, "id": rng.choice([0, wt_])}
                        else:
                            op = {"op": "DeleteWe", "id": wt_, "ps": list(wmap[wt_])}
                        focus = ws_
                    d.note(op)
                if op["op"] in ("Reopen", "Clear", "Paginate", "PagLinks"):
                    continue
                ops.append(op)
                del impl.WRITE_LOG[:]
                res = impl.apply_op(ix, op)
                obs = snap(op, res)
                if "err" in obs:
                    break
                # plain queries of every kind between the setup requests (what they leave behind in
                # long-lived objects is there when the generators run); same in replay_coop
                hooks_mod.note_pool(ix, op)
                hooks_mod.query_noise(ix, None, len(ops))
                del impl.WRITE_LOG[:]
            # the generator requests
            descr = []
            if rng.random() < 0.35:
                d.profile["crawlknown"] = 1      # writers that create nothing: only the setup shaped the webentities
                d.last_pages = list(obs["pages"])
            for _ in range(ncrawl):
                op = d.make("IndexBatchCrawl", {})
                descr.append({"kind": "crawl", "data": [(s, list(tg)) for s, tg in op["data"]]})
            if rng.random() < 0.4:
                descr.append({"kind": "rule", "anchor": d.u.host_prefix(), "rule": rng.choice(gen.RULES)})
            wes, _ = guarded(lambda: _webentities(ix, seed))
            if wes and rng.random() < 0.7:
                wid, ps = rng.choice(wes)
                descr.append({"kind": rng.choice(["qpages", "qcrawled", "qoutlinks", "qinlinks", "qpagelinks",
                                                  "qchildren", "qoutlinks", "qinlinks"]), "id": wid, "ps": ps})
            if wes and rng.random() < 0.35:
                wid, ps = rng.choice(wes)
                descr.append({"kind": rng.choice(["qoutlinks", "qinlinks", "qpagelinks"]), "id": wid, "ps": ps})
            if focus is not None:
                fw = [x for x in wes if x[0] == focus]
                if fw:      # the webentity at the other end of the link whose target was just re-attributed
                    descr.append({"kind": rng.choice(["qoutlinks", "qpagelinks", "qoutlinks"]), "id": fw[0][0], "ps": fw[0][1]})
            if rng.random() < 0.3:
                descr.append({"kind": rng.choice(["qnet", "qnet", "qnetslow"]), "out": rng.random() < 0.5,
                              "auto": rng.random() < 0.5})
            if wes and rng.random() < 0.2:
                wid, ps = rng.choice(wes)
                descr.append({"kind": "qtop", "id": wid, "ps": ps, "k": rng.choice([1, 2, 3, TOP_ALL, TOP_ALL]),
                              "depth": rng.choice([-1, -1, 0, 1, 2])})
            rng.shuffle(descr)
            # family filter for the rule generator
            for g in descr:
                if g["kind"] == "rule":
                    save = dict(d.ram)
                    d.ram[g["anchor"]] = g["rule"]
                    pages = [l for l, _ in obs["pages"]] + [x for gg in descr if gg["kind"] == "crawl"
                                                           for s, tg in gg["data"] for x in [s] + tg]
                    ok = d.family_ok(pages)
                    if not ok:
                        d.ram = save
                        descr = [x for x in descr if x is not g]
                    break
            else:
                pages = [x for gg in descr if gg["kind"] == "crawl" for s, tg in gg["data"] for x in [s] + tg]
                if not d.family_ok(pages):
                    descr = [x for x in descr if x["kind"] != "crawl"]
            we0 = [{"l": l, "id": w} for l, w in obs["we"]]
            pages0 = [{"l": l, "cr": c} for l, c in obs["pages"]]
            outs0 = [{"s": s, "t": t, "w": w} for s, t, w in obs["outs"]]
            begin = {"op": "CoopBegin", "gens": [dict(g) for g in descr]}
            ops.append(begin)
            del impl.WRITE_LOG[:]
            gens = [start_gen(ix.t, g) for g in descr]
            obs = snap(begin, {"exc": "", "pages": 0, "created": [], "ret": None})
            live = list(range(len(gens)))
            moments = {j: [moment(ix.t, g)] for j, g in enumerate(descr) if bounded(g)}
            results = {}
            started = set()
            nsteps = 0
            while live and nsteps < 400:
                nsteps += 1
                j = rng.choice(live)
                op = {"op": "CoopNext", "g": j + 1, "done": False, "result": [], "net": [], "weids": [], "top": []}
                res = {"exc": "", "pages": 0, "created": [], "ret": None}
                del impl.WRITE_LOG[:]
                try:
                    with warnings.catch_warnings(), impl.time_limit():
                        warnings.simplefilter("ignore")
                        state = next(gens[j])
                    if state.done:
                        op["done"] = True
                        live.remove(j)
                        if descr[j]["kind"] in ("crawl", "rule"):
                            res.update(impl.report_dict(state.result))
                        else:
                            record_result(descr[j], state, op, results, j)
                except StopIteration:
                    op["done"] = True
                    live.remove(j)
                except Exception as e:
                    res["exc"] = impl.exc_name(e)
                    res["msg"] = repr(e)[:200]
                    op["done"] = True
                    live.remove(j)
                ops.append(op)
                for jj in moments:
                    if jj not in results or jj == j:
                        moments[jj].append(moment(ix.t, descr[jj]))
                last = not live
                fin = {"last": last}
                if last:
                    fin.update({"pages0": pages0, "outs0": outs0, "we0": we0, "gens": [dict(g) for g in descr],
                                "bounds": [{"g": jj + 1, "qkind": descr[jj]["kind"],
                                            "exc": "" if jj in results else "no result",
                                            "result": results.get(jj, []), "moments": moments[jj]}
                                           for jj in sorted(moments)]})
                obs = snap(op, res, {"final": fin})
                if "err" in obs or impl.TIMEOUTS[0] >= 3:
                    break
    finally:
        ix.destroy()
    for st in steps:
        if st.get("q") is None:
            st.pop("q", None)
    tsteps, abort = concrete_steps_to_trace(steps)
    return {"id": tid, "backend": backend, "def": default0, "rules": rules0, "steps": tsteps, "abort": abort,
            "src": "coop", "ops": ops}


def replay_coop(backend, default, rules, ops, tid=0):
    """Re-execute a recorded coop trace: same requests, same generators, same schedule."""
    del impl.WRITE_LOG[:]
    ix = impl.Index(backend, default, rules)
    steps = []

    def snap(op, res, q=None):
        w = list(impl.WRITE_LOG)
        raw_t, raw_l = ix.raw()
        del impl.WRITE_LOG[:]
        obs = impl.observe(ix)
        st = {"op": op, "res": res, "w": w, "rawT": raw_t, "rawL": raw_l, "obs": obs}
        if q is not None:
            st["q"] = q
        steps.append(st)
        return obs
    try:
        with always_yield():
            obs = snap("Init", None)
            steps[0].pop("res")
            gens, descr, moments, results, live = [], [], {}, {}, []
            pages0 = outs0 = we0 = None
            n_next = sum(1 for o in ops if o["op"] == "CoopNext")
            seen_next = 0
            nset = 0
            for op in ops:
                del impl.WRITE_LOG[:]
                if op["op"] == "CoopBegin":
                    descr = [dict(g) for g in op["gens"]]
                    for g in descr:
                        if g["kind"] == "crawl":
                            g["data"] = [(s, list(t)) for s, t in g["data"]]
                    we0 = [{"l": l, "id": w} for l, w in obs["we"]]
                    pages0 = [{"l": l, "cr": c} for l, c in obs["pages"]]
                    outs0 = [{"s": s, "t": t, "w": w} for s, t, w in obs["outs"]]
                    gens = [start_gen(ix.t, g) for g in descr]
                    moments = {j: [moment(ix.t, g)] for j, g in enumerate(descr) if bounded(g)}
                    obs = snap({"op": "CoopBegin", "gens": [dict(g) for g in descr]},
                               {"exc": "", "pages": 0, "created": [], "ret": None})
                elif op["op"] == "CoopNext":
                    seen_next += 1
                    j = op["g"] - 1
                    o2 = {"op": "CoopNext", "g": j + 1, "done": False, "result": [], "net": [], "weids": [], "top": []}
                    res = {"exc": "", "pages": 0, "created": [], "ret": None}
                    try:
                        with warnings.catch_warnings(), impl.time_limit():
                            warnings.simplefilter("ignore")
                            state = next(gens[j])
                        if state.done:
                            o2["done"] = True
                            if descr[j]["kind"] in ("crawl", "rule"):
                                res.update(impl.report_dict(state.result))
                            else:
                                record_result(descr[j], state, o2, results, j)
                    except StopIteration:
                        o2["done"] = True
                    except Exception as e:
                        res["exc"] = impl.exc_name(e)
                        o2["done"] = True
                    for jj in moments:
                        if jj not in results or jj == j:
                            moments[jj].append(moment(ix.t, descr[jj]))
                    last = seen_next == n_next
                    fin = {"last": last}
                    if last:
                        fin.update({"pages0": pages0, "outs0": outs0, "we0": we0, "gens": [dict(g) for g in descr],
                                    "bounds": [{"g": jj + 1, "qkind": descr[jj]["kind"],
                                                "exc": "" if jj in results else "no result",
                                                "result": results.get(jj, []), "moments": moments[jj]}
                                               for jj in sorted(moments)]})
                    obs = snap(o2, res, {"final": fin})
                else:
                    res = impl.apply_op(ix, op)
                    obs = snap(op, res)
                    nset += 1
                    hooks_mod.note_pool(ix, op)
                    hooks_mod.query_noise(ix, None, nset)
                    del impl.WRITE_LOG[:]
    finally:
        ix.destroy()
    tsteps, abort = concrete_steps_to_trace(steps)
    return {"id": tid, "backend": backend, "def": default, "rules": rules, "steps": tsteps, "abort": abort,
            "src": "coop-replay", "ops": list(ops)}


# ---------------------------------------------------------------------------------------
# The scenario of MC_coop on the real code: every interleaving of its generators' steps
# ---------------------------------------------------------------------------------------
def mc_coop_scenario(c):
    """Concretization of spec/mc/coop/MC_coop.tla (mcSetup, mcGens2): same pages, same batches."""
    A = c[6] + c[1] + c[2]
    B = A + c[4]
    C = B + c[4]
    D = A + c[5]
    E = c[7] + c[1] + c[2] + c[4]
    setup = [{"op": "AddPage", "l": B, "cr": True}]
    gens = [{"kind": "crawl", "data": [(A, [B, C, D]), (B, [A])]},
            {"kind": "crawl", "data": [(D, [C, E]), (C, [B, B])]}]
    return setup, gens


def count_steps(backend, setup, gens):
    """Number of next() calls each generator needs when run alone after the others (crawl: fixed)."""
    ix = impl.Index(backend, {"k": "domain"}, [])
    counts = []
    try:
        with always_yield():
            for op in setup:
                impl.apply_op(ix, op)
            for g in gens:
                it = start_gen(ix.t, g)
                n = 0
                while True:
                    st = next(it)
                    n += 1
                    if st.done:
                        break
                counts.append(n)
    finally:
        ix.destroy()
    return counts


def all_schedules(counts):
    """Every interleaving of generators with the given step counts (as lists of 1-based indices)."""
    out = []

    def rec(left, acc):
        if not any(left):
            out.append(list(acc))
            return
        for j, n in enumerate(left):
            if n:
                left[j] -= 1
                acc.append(j + 1)
                rec(left, acc)
                acc.pop()
                left[j] += 1
    rec(list(counts), [])
    return out


def exhaustive_traces(seed, backend, first_id, limit=None):
    import random
    import tlcgen
    rng = random.Random(seed * 13 + 7)
    c = tlcgen.concretizations(rng)
    setup, gens = mc_coop_scenario(c)
    counts = count_steps(backend, setup, gens)
    scheds = all_schedules(counts)
    total = len(scheds)
    if limit and len(scheds) > limit:
        rng.shuffle(scheds)
        scheds = scheds[:limit]
    traces = []
    for i, s in enumerate(scheds):
        ops = list(setup) + [{"op": "CoopBegin", "gens": [dict(g) for g in gens]}] + \
            [{"op": "CoopNext", "g": j} for j in s]
        traces.append(replay_coop(backend, {"k": "domain"}, [], ops, tid=first_id + i))
    return traces, {"mc_coop_scenario_step_counts": counts, "mc_coop_scenario_interleavings": total,
                    "mc_coop_scenario_replayed": len(scheds)}
