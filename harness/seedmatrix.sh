#!/bin/sh
# Runs every seeded change against the quick check of the property it breaks (and records the outcome).
out=/verif/seeded/MATRIX.txt
: > $out.tmp
for d in /verif/seeded/*/; do
  n=$(basename $d)
  test -f $d/patch.diff || continue
  case $n in benign-*) continue;; esac
  p=$(echo $n | sed 's/-.*//')
  if grep -q '"status": "obsolete' $d/meta.json 2>/dev/null; then echo "seed=$n obsolete (see meta.json)" >> $out.tmp; continue; fi
  /verif/harness/seedtest.sh $n $p >> $out.tmp 2>&1
done
mv $out.tmp $out
