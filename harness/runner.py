# Running histories against the implementation and validating the traces with TLC.
import json
import os
import re
import subprocess
import time

import impl
from abstraction import build_batch, concrete_steps_to_trace
from impl import MachineryError

VERIF = os.path.dirname(os.path.dirname(os.path.abspath(__file__)))
SPEC = os.path.join(VERIF, "spec")
TLA_CP = "/opt/veriftools/tla/tla2tools.jar:/opt/veriftools/tla/CommunityModules-deps.jar"


def run_online(driver, backend, nsteps, hook=None, tid=0, src="random"):
    """Drive one random history online; returns a concrete trace dict."""
    del impl.WRITE_LOG[:]
    default0, rules0 = dict(driver.default), list(driver.rules)
    try:
        ix = impl.Index(backend, default0, rules0)
    except impl.MachineryError:
        raise
    except Exception as e:      # the constructor itself failed: an outcome, not a harness problem
        return {"id": tid, "backend": backend, "def": default0, "rules": rules0, "steps": [],
                "abort": {"step": 1, "err": "init:" + impl.exc_name(e), "op": "Init"}, "src": src, "ops": []}
    steps = []
    ops = []
    try:
        raw_t, raw_l = ix.raw()
        w = list(impl.WRITE_LOG)
        del impl.WRITE_LOG[:]
        obs = impl.observe(ix)
        init = {"op": "Init", "w": w, "rawT": raw_t, "rawL": raw_l, "obs": obs}
        if hook:
            init["q"] = hook(ix, driver, 0, None, None)
        steps.append(init)
        for i in range(nsteps):
            op = driver.draw(obs)
            ops.append(op)
            del impl.WRITE_LOG[:]
            res = impl.apply_op(ix, op)
            w = list(impl.WRITE_LOG)
            raw_t, raw_l = ix.raw()
            del impl.WRITE_LOG[:]
            obs = impl.observe(ix)
            st = {"op": op, "res": res, "w": w, "rawT": raw_t, "rawL": raw_l, "obs": obs}
            t_before = impl.TIMEOUTS[0]
            if hook and "err" not in obs:
                st["q"] = hook(ix, driver, i + 1, op, res)
            steps.append(st)
            if hasattr(driver, "feedback"):
                driver.feedback(op, res)
            if res["exc"] in ("RequestTimeout", "RequestRunaway") or "err" in obs or impl.TIMEOUTS[0] > t_before:
                break      # a hung or failing index is not driven further
            if op["op"] in ("Reopen", "Recreate") and res["exc"]:
                break      # the index could not be opened again: nothing left to drive
    finally:
        ix.destroy()
    tsteps, abort = concrete_steps_to_trace(steps)
    return {"id": tid, "backend": backend, "def": default0, "rules": rules0,
            "steps": tsteps, "abort": abort, "src": src, "ops": ops}


def run_online_multi(driver, roles, nsteps, hook=None, tid=0, src="random", pairname="C15.pair", prehook=None):
    """Drive several indexes in lockstep with the same requests.  roles: list of
    (backend, skip_ops) - the first is the primary (the driver sees its observations);
    an index does not execute the ops named in its skip_ops (logged as "Skip").
    Returns one trace per role; the primary carries pairid/pairname of the second."""
    default0, rules0 = dict(driver.default), list(driver.rules)
    n = len(roles)
    logs = [[] for _ in roles]
    ixs = []
    ops = []
    try:
        for j, (be, skip) in enumerate(roles):
            del impl.WRITE_LOG[:]
            try:
                ix = impl.Index(be, default0, rules0)
            except impl.MachineryError:
                raise
            except Exception as e:
                return [{"id": tid + jj, "backend": roles[jj][0], "def": default0, "rules": rules0, "steps": [],
                         "abort": {"step": 1, "err": "init(%s):%s" % (be, impl.exc_name(e)), "op": "Init"},
                         "src": src, "ops": [], "pairid": -1, "pairname": pairname} for jj in range(1)]
            ixs.append(ix)
            raw_t, raw_l = ix.raw()
            w = list(impl.WRITE_LOG)
            del impl.WRITE_LOG[:]
            obs = impl.observe(ix)
            st = {"op": "Init", "w": w, "rawT": raw_t, "rawL": raw_l, "obs": obs}
            if hook:
                st["q"] = hook(ix, driver, 0, None, None)
            logs[j].append(st)
        alive = True
        for i in range(nsteps):
            if not alive:
                break
            op = driver.draw(logs[0][-1]["obs"])
            ops.append(op)
            for j, (be, skip) in enumerate(roles):
                ix = ixs[j]
                del impl.WRITE_LOG[:]
                if op["op"] in skip:
                    eff = {"op": "Skip"}
                    res = {"exc": "", "pages": 0, "created": [], "ret": None}
                else:
                    eff = op
                    res = impl.apply_op(ix, op)
                w = list(impl.WRITE_LOG)
                pre = prehook(ix) if prehook else None     # before the harness touches the files
                raw_t, raw_l = ix.raw()
                del impl.WRITE_LOG[:]
                obs = impl.observe(ix)
                st = {"op": eff, "res": res, "w": w, "rawT": raw_t, "rawL": raw_l, "obs": obs}
                if hook and "err" not in obs:
                    st["q"] = hook(ix, driver, i + 1, eff, res)
                    if pre:
                        st["q"].update(pre)
                logs[j].append(st)
                if j == 0 and hasattr(driver, "feedback"):
                    driver.feedback(op, res)
                if res["exc"] in ("RequestTimeout", "RequestRunaway") or "err" in obs:
                    alive = False
                if eff["op"] in ("Reopen", "Recreate") and res["exc"]:
                    alive = False
    finally:
        for ix in ixs:
            ix.destroy()
    out = []
    for j, (be, skip) in enumerate(roles):
        tsteps, abort = concrete_steps_to_trace(logs[j])
        out.append({"id": tid + j, "backend": be, "def": default0, "rules": rules0, "steps": tsteps,
                    "abort": abort, "src": src, "ops": [o for o in ops],
                    "pairid": (tid + 1) if j == 0 and n > 1 else -1, "pairname": pairname})
    return out


def run_fixed(backend, default, rules, ops, hook=None, tid=0, src="fixed", folder=None):
    try:
        steps = impl.run_history(backend, default, rules, ops,
                                 hook=(lambda ix, i, op, res: hook(ix, None, i, op, res)) if hook else None,
                                 folder=folder)
    except impl.MachineryError:
        raise
    except Exception as e:      # constructor failure
        if not isinstance(e, impl.RequestTimeout) and "Index" not in repr(e.__traceback__.tb_next):
            pass
        return {"id": tid, "backend": backend, "def": default, "rules": list(rules), "steps": [],
                "abort": {"step": 1, "err": "init:" + impl.exc_name(e), "op": "Init"}, "src": src, "ops": list(ops)}
    tsteps, abort = concrete_steps_to_trace(steps)
    return {"id": tid, "backend": backend, "def": default, "rules": list(rules),
            "steps": tsteps, "abort": abort, "src": src, "ops": list(ops)}


# ---------------------------------------------------------------------------------------
# TLC
# ---------------------------------------------------------------------------------------
def tlc(workdir, module, cfg=None, env=None, workers="auto", extra=(), timeout=3600, libs=(SPEC,)):
    """Run TLC on workdir/module.tla; returns (returncode, stdout)."""
    e = dict(os.environ)
    if env:
        e.update(env)
    meta = os.path.join(workdir, "states")
    jtmp = os.path.join(workdir, "jtmp")      # TLC unpacks its standard modules into java.io.tmpdir
    os.makedirs(jtmp, exist_ok=True)          # and leaves them there: keep them in the scratch dir
    cmd = ["java", "-XX:+UseParallelGC", "-Xss64m", "-Djava.io.tmpdir=" + jtmp,
           "-DTLA-Library=" + os.pathsep.join(libs),
           "-cp", TLA_CP, "tlc2.TLC", "-metadir", meta, "-noGenerateSpecTE",
           "-workers", str(workers)]
    if cfg:
        cmd += ["-config", cfg]
    cmd += list(extra) + [module]
    t0 = time.time()
    p = subprocess.run(cmd, cwd=workdir, env=e, stdout=subprocess.PIPE, stderr=subprocess.STDOUT,
                       timeout=timeout)
    return p.returncode, p.stdout.decode("utf-8", "replace"), time.time() - t0


VERDICT_RE = re.compile(r'<<"VERDICT",\s*(\d+),\s*(\d+),\s*(<<.*?>>)\s*>>\s*$', re.S)


def parse_tla_value(s):
    """Parse the subset of TLA+ values TLC prints for verdicts: <<...>>, ints, strings."""
    pos = [0]

    def ws():
        while pos[0] < len(s) and s[pos[0]] in " \n\r\t":
            pos[0] += 1

    def val():
        ws()
        if s.startswith("<<", pos[0]):
            pos[0] += 2
            out = []
            ws()
            if s.startswith(">>", pos[0]):
                pos[0] += 2
                return out
            while True:
                out.append(val())
                ws()
                if s.startswith(">>", pos[0]):
                    pos[0] += 2
                    return out
                if s[pos[0]] != ",":
                    raise ValueError("bad tuple at %d in %r" % (pos[0], s[:200]))
                pos[0] += 1
        if s[pos[0]] == '"':
            j = pos[0] + 1
            while s[j] != '"':
                j += 2 if s[j] == "\\" else 1
            r = s[pos[0] + 1:j]
            pos[0] = j + 1
            return r
        m = re.match(r"-?\d+", s[pos[0]:])
        if m:
            pos[0] += len(m.group())
            return int(m.group())
        m = re.match(r"TRUE|FALSE", s[pos[0]:])
        if m:
            pos[0] += len(m.group())
            return m.group() == "TRUE"
        raise ValueError("cannot parse at %d: %r" % (pos[0], s[pos[0]:pos[0] + 60]))

    v = val()
    return v


def extract_verdicts(out):
    """Find every <<"VERDICT", ...>> value in TLC output by bracket matching."""
    res = []
    i = 0
    key = re.compile(r'<<\s*"VERDICT"')
    while True:
        m = key.search(out, i)
        if not m:
            break
        i = m.start()
        depth, j = 0, i
        in_str = False
        while j < len(out):
            if in_str:
                if out[j] == "\\":
                    j += 1
                elif out[j] == '"':
                    in_str = False
            elif out[j] == '"':
                in_str = True
            elif out.startswith("<<", j):
                depth += 1
                j += 1
            elif out.startswith(">>", j):
                depth -= 1
                j += 1
                if depth == 0:
                    break
            j += 1
        res.append(parse_tla_value(out[i:j + 1]))
        i = j + 1
    return res


STATS_RE = re.compile(r"(\d+) states generated, (\d+) distinct states found")


def validate(traces, workdir, extra=None, keep=False):
    """Validate concrete traces with TLC/TraphTrace.  Returns dict:
       verdicts: {trace id: [(step, clause), ...]}, consumed: {id: steps consumed},
       states, wall, batch (abstract), table."""
    batch, tab = build_batch(traces, extra=extra)
    os.makedirs(workdir, exist_ok=True)
    bpath = os.path.join(workdir, "batch.json")
    with open(bpath, "w") as f:
        json.dump(batch, f)
    for name in ("Universe.tla", "MC_trace.tla", "MC_trace.cfg"):
        with open(os.path.join(SPEC, "trace", name)) as src, open(os.path.join(workdir, name), "w") as dst:
            dst.write(src.read())
    rc, out, wall = tlc(workdir, "MC_trace", cfg="MC_trace.cfg", env={"VERIF_BATCH": bpath},
                        workers=os.environ.get("VERIF_TLC_WORKERS", "8"))
    if "Model checking completed. No error has been found." not in out:
        with open(os.path.join(workdir, "tlc.out"), "w") as f:
            f.write(out)
        raise MachineryError("TLC did not complete trace validation (rc=%s); output in %s\n%s"
                             % (rc, os.path.join(workdir, "tlc.out"), out[-3000:]))
    verdicts, consumed = {}, {}
    for v in extract_verdicts(out):
        _, tid, k, bad = v
        verdicts[tid] = [(b[0], b[1]) for b in bad]
        consumed[tid] = k
    ids = [t["id"] for t in traces]
    missing = [i for i in ids if i not in verdicts]
    if missing:
        with open(os.path.join(workdir, "tlc.out"), "w") as f:
            f.write(out)
        raise MachineryError("no verdict for traces %s" % missing[:10])
    m = STATS_RE.search(out)
    states = (int(m.group(1)), int(m.group(2))) if m else (0, 0)
    return {"verdicts": verdicts, "consumed": consumed, "states": states, "wall": wall,
            "batch": batch, "table": tab, "out": out}


def validate_rows(rows, workdir, module="rows"):
    """Validate independent rows (batch.extra.rows) with spec/<module>/MC_<module>."""
    from abstraction import StemTable
    tab = StemTable()
    tab.note(rows)
    stemtab = tab.finalize()
    batch = {"stems": stemtab, "www": tab.rank[b"h:www|"], "traces": [], "extra": {"rows": tab.conv(rows)}}
    os.makedirs(workdir, exist_ok=True)
    bpath = os.path.join(workdir, "batch.json")
    with open(bpath, "w") as f:
        json.dump(batch, f)
    src = os.path.join(SPEC, module)
    for name in os.listdir(src):
        with open(os.path.join(src, name)) as s, open(os.path.join(workdir, name), "w") as d:
            d.write(s.read())
    rc, out, wall = tlc(workdir, "MC_%s" % module, cfg="MC_%s.cfg" % module, env={"VERIF_BATCH": bpath},
                        workers=os.environ.get("VERIF_TLC_WORKERS", "8"))
    if "Model checking completed. No error has been found." not in out:
        with open(os.path.join(workdir, "tlc.out"), "w") as f:
            f.write(out)
        raise MachineryError("TLC did not complete row validation (rc=%s)\n%s" % (rc, out[-3000:]))
    verdicts = {}
    for v in extract_verdicts(out):
        _, rid, k, bad = v
        verdicts[rid] = [(b[0], b[1]) for b in bad]
    missing = [x["id"] for x in rows if x["id"] not in verdicts]
    if missing:
        raise MachineryError("no verdict for rows %s" % missing[:10])
    m = STATS_RE.search(out)
    return {"verdicts": verdicts, "states": (int(m.group(1)), int(m.group(2))) if m else (0, 0), "wall": wall,
            "table": tab}
