# Random request histories over small universes of real byte LRUs (behaviour source 3
# of DESIGN 4.1).  Generation is online: the next request is drawn knowing the
# webentities the implementation currently reports, so edits hit real ids.
import random

from impl import real_match_len

SPECIAL_LENS = [73, 74, 75, 76, 147, 148, 149, 150, 221, 222, 223, 295, 296, 297]

RULES = [{"k": "domain"}, {"k": "subdomain"}, {"k": "path", "n": 1}, {"k": "path", "n": 2}]


def filler(rng, n, alphabet):
    if alphabet == "ascii":
        return bytes(rng.choice(b"abcdefghijklmnopqrstuvwxyz0123456789-_.~%") for _ in range(n))
    pool = [0x00, 0x01, 0x7b, 0x7d, 0x7f, 0x80, 0xff, 0x20, 0x0a] + list(range(0x61, 0x67))
    out = bytearray()
    for _ in range(n):
        c = rng.choice(pool) if rng.random() < 0.7 else rng.randrange(256)
        if c == 0x7c:
            c = 0x7b
        out.append(c)
    return bytes(out)


def long_stem(rng, tag, total_len, alphabet="ascii"):
    n = total_len - len(tag) - 1
    s = bytearray(tag + filler(rng, max(n, 1), alphabet) + b"|")
    if alphabet == "bytes" and rng.random() < 0.4:
        # extreme bytes exactly at the edges of the 74-byte block payloads (last byte of a block, first of the next)
        for edge in (73, 74, 147, 148, 221, 222):
            if edge < len(s) - 1 and rng.random() < 0.6:
                s[edge] = rng.choice([0x00, 0x00, 0xff, 0x20, 0x0a])
    return bytes(s)


class Universe(object):
    """A small pool of stems and LRUs that share prefixes, siblings and variations."""

    def __init__(self, rng, profile):
        self.rng = rng
        self.profile = profile
        self.twin_sets = []
        p = profile
        self.schemes = [b"s:http|", b"s:https|"] + ([b"s:ftp|"] if rng.random() < 0.2 else [])
        if p.get("long", 0) and rng.random() < p.get("longfirst", 0.2):
            # a long FIRST stem (the root node of the trie then has tail blocks)
            n = rng.choice([75, 80, 148, 149, 223])
            self.schemes = [b"s:" + bytes(rng.choice(b"abcdefghijklmnopqrstuvwxyz") for _ in range(n - 3)) + b"|"] \
                + self.schemes[:1]
        self.ports = [b"t:80|", b"t:8080|"]
        self.tlds = rng.sample([b"h:com|", b"h:org|", b"h:fr|"], 1 if p.get("concentrate") else 2)
        self.doms = rng.sample([b"h:ex|", b"h:a|", b"h:b|", b"h:world|"],
                               rng.choice([1, 2]) if p.get("concentrate") else rng.choice([2, 3]))
        self.subs = [b"h:www|"] + rng.sample([b"h:blog|", b"h:m|", b"h:x|"], 1)
        if rng.random() < p.get("casing", 0.25):
            self.subs.append(rng.choice([b"h:WWW|", b"h:Www|"]))      # NOT the www stem: only lower case is
        self.locals = [b"h:localhost|", b"h:127.0.0.1|", b"h:[::1]|"]
        if rng.random() < p.get("casing", 0.25):
            # hosts the rule family matches only because its patterns are compiled case-insensitively
            self.locals += [b"h:LOCALHOST|", b"h:[2001:DB8::1]|"]
        paths = [b"p:a|", b"p:b|", b"p:c|", b"p:d|"]
        if p.get("long", 0) and rng.random() < p["long"]:
            for _ in range(rng.choice([1, 2])):
                paths.append(long_stem(rng, b"p:", rng.choice(p.get("lens") or SPECIAL_LENS),
                                       rng.choice(["ascii", "bytes"])))
            if rng.random() < p.get("huge", 0.12):
                # a stem of dozens of blocks (2442 = 33 blocks exactly)
                paths.append(long_stem(rng, b"p:", rng.choice([2442, 2443, 2960, 5000]), "ascii"))
        # twins: long stems sharing their whole first block (and more), differing only in a later byte
        for x in list(paths[4:]):
            if len(x) >= 78 and rng.random() < p.get("twins", 0.5):
                i = rng.choice([len(x) - 2, 76, max(76, len(x) - 3)])
                for c in rng.sample([b"0", b"z", b"A", b"~"], 2):
                    if x[i:i + 1] != c:
                        paths.append(x[:i] + c + x[i + 1:])
                        self.twin_sets.append((x, paths[-1]))
        if p.get("prefixy", 0) and rng.random() < p["prefixy"]:
            paths += [b"p:a", b"p:a\x00|", b"p:a{|", b"p:a}|"]      # byte-prefixes around '|'
            paths = [x if x.endswith(b"|") else x + b"b|" for x in paths]
        if p.get("adversarial", 0) and rng.random() < p["adversarial"]:
            paths += rng.sample([b"p:s:http|", b"p:h:www|", b"p:s:https|", b"p:h:|", b"q:h:www|", b"p:x|h"[:4] + b"|"], 2)
        self.paths = paths
        self.tails = [b"q:x=1|", b"f:top|"]
        self.raw = []
        if p.get("raw", 0) and rng.random() < p["raw"]:
            for _ in range(rng.choice([2, 3, 4])):
                n = rng.choice([1, 2, 3, 5, 8] + SPECIAL_LENS[:4])
                self.raw.append(filler(rng, n, "bytes") + b"|")
            if rng.random() < p.get("emptystem", 0.3):
                self.raw.append(b"|")        # the shortest stem there is: one byte, the separator alone
        self.lrus = []
        target = p.get("nlrus", 14)
        guard = 0
        while len(self.lrus) < target and guard < 500:
            guard += 1
            l = self.draw_lru()
            if l not in self.lrus:
                self.lrus.append(l)
        # pages on a host the rule family recognises only case-insensitively
        self.cased = None
        up = [x for x in self.locals if x != x.lower()]
        if up:
            self.cased = self.schemes[0] + rng.choice(up)
            for z in (self.cased + self.paths[0], self.cased + self.paths[1] + self.paths[0], self.cased):
                if z not in self.lrus:
                    self.lrus.insert(rng.randrange(len(self.lrus) + 1), z)
        # twins are siblings: both beneath the same parent, in the pool
        for x, y in self.twin_sets[:2]:
            base = rng.choice(self.schemes) + b"".join(self.draw_hosts() or [self.tlds[0]])
            for z in (x, y):
                if base + z not in self.lrus:
                    self.lrus.insert(rng.randrange(len(self.lrus) + 1), base + z)

    def draw_hosts(self):
        rng = self.rng
        r = rng.random()
        if r < 0.08:
            return [rng.choice(self.locals)]
        if r < 0.12:
            return [rng.choice(self.tlds)]                      # a single host stem
        if r < 0.14:
            return []                                           # no host at all
        h = [rng.choice(self.tlds), rng.choice(self.doms)]
        if rng.random() < 0.45:
            h.append(rng.choice(self.subs))
        return h

    def draw_lru(self):
        rng = self.rng
        if self.raw and rng.random() < 0.35:
            n = rng.choice([1, 2, 3])
            return b"".join(rng.choice(self.raw + self.paths[:2]) for _ in range(n))
        s = rng.choice(self.schemes)
        if rng.random() < 0.12:
            s += rng.choice(self.ports)
        s += b"".join(self.draw_hosts())
        for _ in range(rng.choice([0, 1, 1, 2, 2, 3])):
            s += rng.choice(self.paths)
        if rng.random() < 0.1:
            s += rng.choice(self.tails)
        return s

    def page(self):
        l = self.rng.choice(self.lrus)
        if self.rng.random() < self.profile.get("extend", 0.12):
            return self.extend(l)
        return l

    def extend(self, l):
        """A (mostly new) LRU just below l: its insertion rewrites l's own block."""
        from impl import stems_of
        if len(stems_of(l)) >= 7:
            return l
        return l + self.rng.choice(self.paths[:4] + self.tails[:1])

    def prefix(self):
        from impl import stems_of
        st = stems_of(self.rng.choice(self.lrus))
        n = self.rng.randrange(1, len(st) + 1)
        return b"".join(st[:n])

    def host_prefix(self):
        """scheme (+port) + hosts of some LRU: where Hyphe anchors rules and webentities."""
        from impl import stems_of
        st = stems_of(self.rng.choice(self.lrus))
        n = 0
        for i, s in enumerate(st):
            if s[:2] in (b"s:", b"t:", b"h:"):
                n = i + 1
            else:
                break
        n = max(n, 1)
        if self.rng.random() < 0.3 and n < len(st):
            n += 1
        if self.rng.random() < 0.25 and n > 2:
            n -= 1
        return b"".join(st[:n])


DEFAULT_WEIGHTS = {
    "AddPage": 22, "AddPages": 8, "AddLinks": 14, "IndexBatchCrawl": 10, "CreateWe": 8,
    "DeleteWe": 4, "AddPrefix": 5, "RemovePrefix": 4, "MovePrefix": 3, "AddRule": 5,
    "RemoveRule": 2, "Reopen": 3, "Clear": 1, "Paginate": 0, "PagLinks": 0, "Recreate": 0,
}


class Driver(object):
    def __init__(self, seed, profile, backend="file"):
        self.rng = random.Random(seed)
        self.profile = dict(profile)
        self.backend = backend
        self.u = Universe(self.rng, self.profile)
        rng = self.rng
        self.default = rng.choice([{"k": "domain"}] * 5 + [{"k": "subdomain"}, {"k": "never"},
                                   {"k": "never", "n": 1}][:7 + (rng.random() < 0.5)])
        self.rules = []
        for _ in range(rng.choice([0, 0, 1, 1, 2])):
            a = self.u.host_prefix()
            if a not in [x for x, _ in self.rules]:
                self.rules.append((a, rng.choice(RULES)))
        if getattr(self.u, "cased", None) and rng.random() < 0.7 and self.u.cased not in [x for x, _ in self.rules]:
            # a specific rule on that host: it matches there only thanks to the case-insensitive compilation
            self.rules.append((self.u.cased, rng.choice([{"k": "path", "n": 1}, {"k": "path", "n": 2}])))
        self.ram = dict(self.rules)     # what the implementation holds in RAM
        self.weights = dict(DEFAULT_WEIGHTS)
        self.weights.update(self.profile.get("weights", {}))
        if backend != "file":
            self.weights["Reopen"] = 0
        self.dropped_family = 0
        self.last_pages = []
        self.sess = None      # pagination session in progress
        self.just_created = False
        self.just_reopened = False
        self.just_ruled = None
        self.just_nested = None
        self.after_clear = None
        self.cycle = None
        self.last_write = None
        self.resubmit = False
        self.story = None
        self.redeclare = None
        self.script = []
        self.did_nested = False
        self.did_sorted = False
        self.did_deep = False
        self.fresh_n = 0

    def family_ok(self, lrus):
        rules = [self.default] + list(self.ram.values())
        for l in lrus:
            for r in rules:
                if real_match_len(r, l) is None:
                    self.dropped_family += 1
                    return False
        return True

    def draw(self, obs):
        """Draw the next request given the latest observations (concrete)."""
        rng, u = self.rng, self.u
        self.last_pages = list(obs["pages"])
        we = {}
        for lru, wid in obs["we"]:
            we.setdefault(wid, []).append(lru)
        if self.sess is not None and rng.random() < self.profile.get("continue", 0.6):
            return dict(self.sess)
        # the very first write on an empty index (fresh or just cleared) is a webentity several stems deep; then
        # webentities on its ancestors from the top down - the bare scheme first: nodes that were created by the
        # first walk of an empty trie and have seen no other walk since (profile key "firstwrite" only)
        if "firstwrite" in self.profile and not obs["pages"] and not obs["we"] and not self.script \
                and self.story is None and rng.random() < self.profile["firstwrite"]:
            from impl import stems_of
            st = stems_of(u.host_prefix())
            if len(st) >= 2:
                tops = [b"".join(st[:k]) for k in range(1, len(st))]
                if rng.random() < 0.4:
                    rng.shuffle(tops)
                self.script = [lambda we_, p=p: {"op": "CreateWe", "ps": [p]} for p in tops[:2]]
                op = {"op": "CreateWe", "ps": [b"".join(st)]}
                self.note(op)
                return op
        # a page exactly on the anchor of the rule just installed (the rule's own node is on the walk)
        if self.just_ruled is not None and rng.random() < self.profile.get("anchorpage", 0.25):
            l, self.just_ruled = self.just_ruled, None
            if self.family_ok([l]):
                op = {"op": "AddPage", "l": l, "cr": rng.random() < 0.3}
                self.note(op)
                return op
        self.just_ruled = None
        # pages beside a nested webentity prefix just declared: its siblings (same trie parent) are
        # inserted AFTER it, on both sides in byte order
        if self.just_nested is not None and rng.random() < self.profile.get("nestsib", 0.0):
            from impl import stems_of
            st = stems_of(self.just_nested)
            self.just_nested = None
            par = b"".join(st[:-1])
            ls = [par + x for x in rng.sample(u.paths[:4], 3) if x != st[-1]]
            if rng.random() < 0.5:
                ls.append(par + st[-1] + rng.choice(u.paths[:3]))
            if ls and self.family_ok(ls):
                op = {"op": "AddPages", "ls": ls, "cr": rng.random() < 0.5}
                self.note(op)
                return op
        self.just_nested = None
        # right after a clear: pages beneath the anchors of the rules that were in force BEFORE it
        # (what a clear that keeps stale rules or a stale default would treat differently)
        if self.after_clear is not None and rng.random() < self.profile.get("clearprobe", 0.6):
            anchors, self.after_clear = self.after_clear, None
            ls = []
            for a in anchors[:2]:
                ls.append(a + rng.choice(u.paths[:3]) + rng.choice(u.paths[:3]))
            ls.append(u.page())
            if self.family_ok(ls):
                op = {"op": "AddPages", "ls": ls, "cr": rng.random() < 0.5}
                self.note(op)
                return op
        self.after_clear = None
        # the latest page / link submission sent again right after an unrelated webentity or rule edit:
        # nothing new for the trie, but webentities may have to be created again
        if self.resubmit and self.last_write is not None and rng.random() < self.profile.get("resubmit", 0.4):
            self.resubmit = False
            op = dict(self.last_write)
            op.pop("text", None)
            if self.family_ok(pages_of(op)):
                return op
        self.resubmit = False
        # the rule in force above a webentity that was just deleted / detached, declared again, identically
        if self.redeclare is not None and rng.random() < self.profile.get("redeclare", 0.5):
            a, self.redeclare = self.redeclare, None
            if a in self.ram:
                op = {"op": "AddRule", "anchor": a, "rule": dict(self.ram[a]), "wr": True}
                self.note(op)
                return op
        self.redeclare = None
        # a site declared explicitly, then crawled, then its webentity deleted (the pages stay, the next
        # submission of known pages has to create a webentity again)
        if self.story is not None and rng.random() < self.profile.get("sitestory", 0.6):
            stage, site = self.story
            inside = [l for l in u.lrus if l.startswith(site) and l != site]
            if stage == "links" and len(inside) >= 1:
                self.story = ("delete", site)
                a_, b_ = rng.choice(inside), rng.choice(inside + [site])
                if rng.random() < 0.6:
                    # the other end is the home page of ANOTHER site, often on the other scheme: its node is
                    # where this site's scheme / www variations will have to be attached later
                    h = u.host_prefix()
                    if rng.random() < 0.6:
                        h = (b"s:https|" + h[7:]) if h.startswith(b"s:http|") else \
                            ((b"s:http|" + h[8:]) if h.startswith(b"s:https|") else h)
                    if not h.startswith(site) and not site.startswith(h):
                        a_, b_ = (h, a_) if rng.random() < 0.6 else (a_, h)
                op = ({"op": "AddLinks", "pairs": [(a_, b_)] + ([(b_, a_)] if rng.random() < 0.4 else [])}
                      if rng.random() < 0.6 else {"op": "IndexBatchCrawl", "data": [(a_, [b_])]})
                if self.family_ok(pages_of(op)):
                    self.note(op)
                    return op
            elif stage == "delete":
                self.story = None
                owner = [w for w, ps in we.items() if site in ps]
                if owner:
                    op = {"op": "DeleteWe", "id": owner[0], "ps": list(we[owner[0]])}
                    self.note(op)
                    return op
        self.story = None
        # the same story on a site nobody has seen yet (none of its scheme / www variations exists), linked
        # from the home page of a known site of the same TLD on the other scheme
        if self.script:
            op = self.script.pop(0)(we)
            if op is not None and self.family_ok(pages_of(op)):
                self.note(op)
                self.story = None
                return op
            self.script = []
        elif "filteredstory" in self.profile and not getattr(self, "did_filtered", False) \
                and rng.random() < self.profile["filteredstory"]:
            # a webentity on two prefixes (scheme variations); in the LATER prefix the first page has links, but only
            # links that the switches of the request leave out (outbound only / internal only); then the answer is
            # paged through one source page at a time under each combination of switches, prefixes in both orders
            from impl import stems_of
            st = stems_of(u.host_prefix())
            if len(st) >= 2 and st[0] in (b"s:http|", b"s:https|") and len(u.paths) >= 3:
                self.did_filtered = True
                self.fresh_n += 1
                flip = b"s:https|" if st[0] == b"s:http|" else b"s:http|"
                host = b"".join(st[1:]) + (b"h:f%d|" % self.fresh_n)
                a_, b_ = st[0] + host, flip + host
                pth = sorted(rng.sample(list(u.paths), 3))
                if rng.random() < 0.3:
                    rng.shuffle(pth)
                other = rng.choice([l for l in u.lrus if not l.startswith((a_, b_))] or [u.page()])
                pg = [a_ + pth[0], a_ + pth[1], b_ + pth[0], b_ + pth[2]]
                only_out = [(a_ + pth[1], a_ + pth[0]), (b_ + pth[0], other), (b_ + pth[2], a_ + pth[0])]
                only_int = [(a_ + pth[1], other), (b_ + pth[0], a_ + pth[0]), (b_ + pth[2], other)]
                pairs = only_out if rng.random() < 0.6 else only_int

                def pag(io, rev, a_=a_, b_=b_):
                    def f(we_):
                        own = [w for w, ps in we_.items() if a_ in ps and b_ in ps]
                        return {"op": "PagLinks", "id": own[0], "ps": [b_, a_] if rev else [a_, b_], "k": 1,
                                "int": io[0], "out": io[1], "token": None} if own else None
                    return f
                combos = [((True, False), False), ((False, True), False), ((True, True), False), ((True, False), True),
                          ((False, True), True)]
                rng.shuffle(combos)
                self.script = [lambda we_: {"op": "CreateWe", "ps": [a_, b_]},
                               lambda we_: {"op": "AddPages", "ls": pg, "cr": True},
                               lambda we_: {"op": "AddLinks", "pairs": pairs}] + [pag(io, rev) for io, rev in combos[:4]]
        elif self.default.get("k") == "never" and not self.did_nested and rng.random() < self.profile.get("nestedstory", 0.12):
            # no automatic creation: paths first (unmarked), then a broad webentity, then a site declared with
            # its nested variations on nodes that all exist already, then its bare prefix moved elsewhere
            from impl import stems_of
            st = stems_of(u.host_prefix())
            if len(st) >= 3 and st[0] in (b"s:http|", b"s:https|") and st[1][:2] == b"h:" and st[2][:2] == b"h:":
                self.did_nested = True
                flip = b"s:https|" if st[0] == b"s:http|" else b"s:http|"
                broad, bare = st[0] + st[1], st[0] + st[1] + st[2]
                vs = [bare, flip + st[1] + st[2], bare + b"h:www|", flip + st[1] + st[2] + b"h:www|"]
                pg = [v + rng.choice(u.paths[:3]) for v in vs]
                tail = vs[1:]
                rng.shuffle(tail)

                def move(we_, bare=bare, broad=broad):
                    own = [w for w, ps in we_.items() if bare in ps]
                    to = [w for w, ps in we_.items() if broad in ps]
                    return {"op": "MovePrefix", "p": bare, "to": to[0], "frm": rng.choice([0, own[0]])} \
                        if own and to and own[0] != to[0] else None
                self.script = [lambda we_: {"op": "AddPages", "ls": pg, "cr": False},
                               lambda we_: {"op": "CreateWe", "ps": [broad]},
                               lambda we_: {"op": "CreateWe", "ps": [bare] + tail}, move]
        elif not self.did_deep and rng.random() < self.profile.get("deeppath", 0.0):
            # a page hundreds of stems below its webentity's prefix (a calendar / "next" trap)
            self.did_deep = True
            h = u.host_prefix()
            n = rng.choice([255, 256, 257, 300])
            deep = h + rng.choice(u.paths[:2]) * n
            self.script = [lambda we_: {"op": "AddPage", "l": deep, "cr": True},
                           lambda we_: {"op": "AddPage", "l": deep[:len(deep) // 2 + (len(deep) // 2) % 4], "cr": False}]
            self.script = self.script[:1]
        elif not self.did_sorted and rng.random() < self.profile.get("sortedsiblings", 0.0):
            # dozens of siblings inserted in ascending order (a degenerate sibling tree: a chain of right
            # pointers, token paths of 30-50 moves), then paged through from beyond the 27th
            from impl import stems_of
            st = stems_of(u.host_prefix())
            if len(st) >= 3 and st[0] in (b"s:http|", b"s:https|") and st[2][:2] == b"h:":
                self.did_sorted = True
                site = b"".join(st[:3])
                kids = [site + b"p:u%02d|" % j for j in range(48)]
                if rng.random() < 0.4:
                    kids = kids[::-1]            # or descending: a chain of left pointers
                k1 = rng.choice([27, 28, 30, 40])

                def page(we_, site=site, k1=k1):
                    own = [w for w, ps in we_.items() if any(site.startswith(p) for p in ps)]
                    if not own:
                        return None
                    w = own[0]
                    return {"op": self.profile.get("sortedop", "Paginate"), "id": w, "ps": list(we_[w]), "k": k1,
                            "co": False, "int": True, "out": True, "token": None}
                self.script = [lambda we_: {"op": "AddPages", "ls": kids[:32], "cr": True},
                               lambda we_: {"op": "AddPages", "ls": kids[32:], "cr": False}, page]
        elif rng.random() < self.profile.get("freshsite", 0.05):
            from impl import stems_of
            st = stems_of(u.host_prefix())
            if len(st) >= 3 and st[0] in (b"s:http|", b"s:https|") and st[1][:2] == b"h:" and st[2][:2] == b"h:":
                self.fresh_n += 1
                flip = b"s:https|" if st[0] == b"s:http|" else b"s:http|"
                site = st[0] + st[1] + (b"h:%s%d|" % (rng.choice([b"aa", b"zz", b"m"]), self.fresh_n))
                home = flip + st[1] + st[2]
                page = site + rng.choice(u.paths)
                link = {"op": "AddLinks", "pairs": [(home, page)] if rng.random() < 0.7 else [(page, home)]}

                def delete(we_, site=site):
                    owner = [w for w, ps in we_.items() if site in ps]
                    return {"op": "DeleteWe", "id": owner[0], "ps": list(we_[owner[0]])} if owner else None
                self.script = [lambda we_: {"op": "CreateWe", "ps": [site]}, lambda we_: dict(link), delete,
                               lambda we_: dict(link),
                               lambda we_: {"op": "AddPage", "l": flip + site[len(st[0]):], "cr": False}]
        # rule replaced on an anchor that is edited in between: remove the rule, edit the webentity that
        # holds the anchor itself (or attach the anchor to one), declare a rule on the anchor again
        if self.cycle is not None and rng.random() < self.profile.get("rulecycle", 0.7):
            stage, a = self.cycle
            if stage == "below":        # rule just declared on a: new nodes beneath a, then the rule is removed
                self.cycle = ("unrule", a)
                ls = [a + x for x in rng.sample(u.paths[:4], 2)] + [a]
                if self.family_ok(ls):
                    op = {"op": "AddPages", "ls": ls[:rng.choice([2, 3])], "cr": rng.random() < 0.5}
                    self.note(op)
                    return op
            if stage == "unrule":
                self.cycle = None
                if a in self.ram:
                    op = {"op": "RemoveRule", "anchor": a}
                    self.ram.pop(a, None)         # (not through note(): no new cycle)
                    return op
            if stage == "edit":
                self.cycle = ("readd", a)
                owner = [w for w, ps in we.items() if a in ps]
                r = rng.random()
                below = [a + x for x in rng.sample(u.paths[:4], 2)]
                if rng.random() < 0.3 and self.family_ok(below):
                    op = {"op": "AddPages", "ls": below, "cr": rng.random() < 0.5}     # new nodes beneath the anchor
                elif owner and r < 0.35:
                    op = {"op": "DeleteWe", "id": owner[0], "ps": list(we[owner[0]])}
                elif owner and r < 0.55:
                    op = {"op": "RemovePrefix", "p": a, "id": owner[0]}
                elif owner and len(we) > 1 and r < 0.75:
                    op = {"op": "MovePrefix", "p": a, "to": rng.choice(sorted(we)), "frm": owner[0]}
                else:
                    op = {"op": "CreateWe", "ps": [a]}
                self.note(op)
                return op
            self.cycle = None
            op = {"op": "AddRule", "anchor": a, "rule": rng.choice(RULES), "wr": True}
            if self.family_ok([l for l, _ in obs["pages"]] + u.lrus) or True:
                save = dict(self.ram)
                self.ram[a] = op["rule"]
                ok = self.family_ok([l for l, _ in obs["pages"]] + u.lrus)
                self.ram = save
                if ok:
                    self.note(op)
                    return op
        self.cycle = None
        # persistence pattern: close and reopen right after a request that issued webentity ids,
        # then create again (what a counter kept only in RAM breaks)
        if self.backend == "file" and self.weights.get("Reopen", 0) > 0:
            if self.just_created and rng.random() < self.profile.get("persist", 0.45):
                self.just_created = False
                self.just_reopened = True
                op = self.make("Reopen", we)
                self.note(op)
                return op
            if self.just_reopened and rng.random() < 0.8:
                self.just_reopened = False
                self.fresh_n += 1
                # a creation that certainly issues an id: a prefix nobody owns yet
                op = {"op": "CreateWe", "ps": [u.page() + b"p:n%d|" % self.fresh_n]}
                self.note(op)
                return op
        for _ in range(50):
            name = rng.choices(list(self.weights), weights=list(self.weights.values()))[0]
            op = self.make(name, we)
            if op is None:
                continue
            pages = pages_of(op)
            if name == "AddRule":
                pages = [l for l, _ in obs["pages"]]
                save = dict(self.ram)
                self.ram[op["anchor"]] = op["rule"]
                ok = self.family_ok(pages + u.lrus)
                self.ram = save
                if not ok:
                    continue
            elif pages and not self.family_ok(pages):
                continue
            if rng.random() < self.profile.get("text", 0.15):
                op["text"] = True
            if name in ("IndexBatchCrawl", "AddRule") and rng.random() < self.profile.get("allyield", 0.3):
                op["ay"] = True      # the request drains its own generator with every iteration a yield point
            self.note(op)
            return op
        return {"op": "AddPage", "l": u.lrus[0], "cr": False}

    def feedback(self, op, res):
        """Result of the request just executed (pagination sessions continue with its token)."""
        self.just_created = bool(res.get("created"))
        if op["op"] == "AddRule" and op.get("wr") and not res.get("exc"):
            self.just_ruled = op["anchor"]
        if op["op"] in ("Paginate", "PagLinks"):
            ret = res.get("ret")
            if res["exc"] or not isinstance(ret, dict) or ret.get("done") or not ret.get("token"):
                self.sess = None
            else:
                self.sess = dict(op)
                self.sess["token"] = ret["token"]
        elif op["op"] in ("Clear", "Recreate", "ClearKeep"):
            self.sess = None

    def note(self, op):
        n = op["op"]
        if n == "CreateWe" and len(op["ps"]) == 1 and self.story is None:
            self.story = ("links", op["ps"][0])
        if n in ("AddLinks", "AddPages", "IndexBatchCrawl", "AddPage"):
            self.last_write = op
        elif n in ("DeleteWe", "RemovePrefix", "MovePrefix", "RemoveRule", "DeleteWeNC"):
            self.resubmit = True
            if n in ("DeleteWe", "RemovePrefix") and self.ram:
                gone = list(op.get("ps") or [op.get("p", b"")])
                above = [a for a in sorted(self.ram) if any(g.startswith(a) for g in gone)]
                if above:
                    self.redeclare = above[0]      # a rule in force above what was just detached
        if n in ("CreateWe", "AddPrefix"):
            from impl import stems_of
            p = op["ps"][0] if n == "CreateWe" else op.get("p", b"")
            if len(stems_of(p)) >= 4:
                self.just_nested = p
        if n == "AddRule":
            if op.get("wr") and self.cycle is None and self.rng.random() < self.profile.get("rulebelow", 0.3):
                self.cycle = ("below", op["anchor"])
            self.ram[op["anchor"]] = op["rule"]
        elif n == "RemoveRule":
            if op["anchor"] in self.ram:
                self.cycle = ("edit", op["anchor"])
            self.ram.pop(op["anchor"], None)
        elif n in ("Reopen", "Clear", "Recreate"):
            if n != "Reopen":
                self.after_clear = sorted(self.ram)
            self.ram = dict(op["rules"])
            self.default = op["def"]

    def make(self, name, we):
        rng, u = self.rng, self.u
        ids = sorted(we)
        if name == "AddPage":
            return {"op": name, "l": u.page(), "cr": rng.random() < 0.4}
        if name == "AddPages":
            return {"op": name, "ls": [u.page() for _ in range(rng.choice([1, 2, 3]))], "cr": rng.random() < 0.5}
        if name == "AddLinks":
            n = rng.choice([1, 2, 3, 4])
            pairs = []
            if we and rng.random() < self.profile.get("siblinks", 0.0):
                # one page links to a webentity prefix P and to plain siblings of P (same trie parent)
                from impl import stems_of
                P = rng.choice(rng.choice(list(we.values())))
                st = stems_of(P)
                if len(st) >= 3:
                    par = b"".join(st[:-1])
                    s = rng.choice([l for l, _ in self.last_pages] or [u.page()])
                    sibs = [par + x for x in rng.sample(u.paths[:4], 2) if par + x != P]
                    pairs = [(s, P)] + [(s, x) for x in sibs]
                    if rng.random() < 0.5:
                        pairs += [(x, s) for x in [P] + sibs[:1]]
                    if rng.random() < 0.5:
                        rng.shuffle(pairs)
                    if self.family_ok([x for pr in pairs for x in pr]):
                        return {"op": name, "pairs": pairs}
                    pairs = []
            for _ in range(n):
                s, t = u.page(), u.page()
                if rng.random() < self.profile.get("homelinks", 0.2):
                    t = u.host_prefix()          # links to home pages: targets that are webentity prefixes
                if we and rng.random() < self.profile.get("prefixlinks", 0.15):
                    t = rng.choice(rng.choice(list(we.values())))   # a link end that is itself a webentity prefix
                    if rng.random() < 0.4:
                        s = rng.choice(rng.choice(list(we.values())))
                if rng.random() < 0.15:
                    t = s
                pairs.append((s, t))
                if rng.random() < 0.25:
                    pairs.append((s, t))
            return {"op": name, "pairs": pairs}
        if name == "IndexBatchCrawl":
            # adversarial shapes: sources that were crawled before, sources that are targets of
            # earlier sources of the same batch, targets that are all known, empty target lists
            data, seen = [], set()
            known = [l for l, _ in self.last_pages] or [u.page()]
            if self.profile.get("crawlknown") and len(known) >= 2:
                # a batch over known pages only: links and crawled marks, no page and no webentity created
                data = []
                for s_ in rng.sample(known, min(len(known), rng.choice([1, 2, 3]))):
                    data.append((s_, [rng.choice(known) for _ in range(rng.choice([1, 2, 2, 3]))]))
                return {"op": name, "data": data}
            crawled = [l for l, c in self.last_pages if c] or known
            if rng.random() < 0.3:
                # a typical crawl shape: a hub links to an already crawled page X and to pages
                # discovered around X; X is re-crawled in the same batch
                x = rng.choice(crawled)
                hub = rng.choice(known + [u.page()])
                around = [u.extend(x) if rng.random() < 0.7 else u.page() for _ in range(rng.choice([1, 2]))]
                first = [x] + around
                rng.shuffle(around)
                if rng.random() < 0.3:
                    rng.shuffle(first)
                xt = [rng.choice(known + first) for _ in range(rng.choice([0, 1, 2]))]
                if rng.random() < 0.3:
                    xt.append(u.page())
                data = [(hub, first)] if hub != x else []
                data.append((x, xt))
                if rng.random() < 0.4:
                    y = rng.choice(first)
                    if y not in (hub, x):
                        data.append((y, [rng.choice(known)]))
                op = {"op": name, "data": data}
                if rng.random() < self.profile.get("yieldfreq", 0.3):
                    op["yf"] = rng.choice([1, 2, 3])
                return op
            unc = [l for l, c in self.last_pages if not c]
            if len(unc) >= 1 and rng.random() < self.profile.get("mutual", 0.12):
                # known, uncrawled pages that cite each other: each is met first as a target, then as a source;
                # nothing new for the trie, only crawled marks
                b_ = rng.choice(unc)
                a_ = rng.choice(crawled + unc[:1])        # mostly an already crawled page: nothing to write for it
                op = {"op": name, "data": [(a_, [b_]), (b_, [a_])] if a_ != b_ else [(b_, [a_, b_])]}
                if rng.random() < 0.3:
                    op["yf"] = rng.choice([1, 2, 3])
                return op
            nsrc = rng.choice([1, 2, 2, 3, 4])
            pending = []
            for _ in range(nsrc):
                r = rng.random()
                if pending and r < 0.4:
                    s = pending.pop(0)
                elif r < 0.65:
                    s = rng.choice(crawled)
                else:
                    s = u.page()
                if s in seen:
                    continue
                seen.add(s)
                tg = []
                for _ in range(rng.choice([0, 1, 2, 2, 3])):
                    r = rng.random()
                    t = rng.choice(known) if r < 0.45 else (rng.choice(crawled) if r < 0.6 else u.page())
                    if tg and rng.random() < 0.3:
                        t = u.extend(rng.choice(tg + [s]))      # fresh node hanging off a page of this batch
                    tg.append(t)
                    if t not in seen and rng.random() < 0.5:
                        pending.append(t)
                if tg and rng.random() < 0.2:
                    tg.append(tg[0])
                if rng.random() < 0.1:
                    tg.append(s)
                data.append((s, tg))
            op = {"op": name, "data": data}
            if rng.random() < self.profile.get("yieldfreq", 0.3):
                op["yf"] = rng.choice([1, 2, 3, 5])      # the public yield_frequency argument (default 50)
            return op
        if name == "CreateWe":
            p = u.host_prefix() if rng.random() < 0.6 else u.prefix()
            ps = [p]
            if rng.random() < self.profile.get("variationset", 0.25):
                # the usual call: a site declared with its scheme / www variations (nested prefixes), any order
                from impl import stems_of
                st = stems_of(p)
                if st and st[0] in (b"s:http|", b"s:https|") and len(st) >= 2 and st[-1][:2] == b"h:":
                    base = st[1:-1] if st[-1] == b"h:www|" else st[1:]
                    vs = [b"".join([sc] + base + w) for sc in (b"s:http|", b"s:https|") for w in ([], [b"h:www|"])]
                    rng.shuffle(vs)
                    return {"op": name, "ps": vs[:rng.choice([2, 3, 4, 4])]}
            if rng.random() < 0.4:
                q = u.host_prefix()
                if q not in ps:
                    ps.append(q)
            if rng.random() < 0.1:
                ps.append(ps[0])
            return {"op": name, "ps": ps}
        if name == "DeleteWe":
            if not ids:
                return None
            w = rng.choice(ids)
            under = [x for x in ids if any(p.startswith(a) and p != a for p in we[x] for a in self.ram)]
            if under and rng.random() < 0.5:
                w = rng.choice(under)         # a webentity strictly beneath the anchor of a rule in force
            ps = list(we[w])
            r = rng.random()
            if r < 0.15 and len(ps) > 1:
                ps = ps[:-1]
            elif r < 0.25:
                ps.append(u.prefix())
            wid = w if rng.random() < 0.9 else w + 1
            if rng.random() < self.profile.get("unchecked", 0.15):
                return {"op": "DeleteWeNC", "id": wid, "ps": ps}
            return {"op": name, "id": wid, "ps": ps}
        if name == "AddPrefix":
            wid = rng.choice(ids) if ids and rng.random() < 0.85 else rng.randrange(1, 6)
            if rng.random() < self.profile.get("bigids", 0.12):
                # ids as large as a long-lived corpus has them (the API takes any id here)
                wid = rng.choice([257, 258, 300, 1000, 65536, 1000003]) + rng.randrange(3)
            p = u.prefix() if rng.random() < 0.6 else u.host_prefix()
            return {"op": name, "p": p, "id": wid}
        if name == "RemovePrefix":
            if ids and rng.random() < 0.7:
                w = rng.choice(ids)
                p = rng.choice(we[w])
                wid = rng.choice([0, w, w]) if rng.random() < 0.9 else w + 1
            else:
                p, wid = u.prefix(), 0
            return {"op": name, "p": p, "id": wid}
        if name == "MovePrefix":
            if len(ids) < 1:
                return None
            w = rng.choice(ids)
            p = rng.choice(we[w])
            to = rng.choice(ids)
            frm = rng.choice([0, w, w]) if rng.random() < 0.9 else w + 1
            return {"op": name, "p": p, "to": to, "frm": frm, "alias": rng.random() < 0.3}
        if name == "AddRule":
            if self.ram and rng.random() < self.profile.get("ruleagain", 0.3):
                # the rule already in force on an anchor, declared again (identical, or replaced)
                a = rng.choice(sorted(self.ram))
                r = self.ram[a] if rng.random() < 0.7 else rng.choice(RULES)
                return {"op": name, "anchor": a, "rule": dict(r), "wr": rng.random() < 0.9}
            a = u.host_prefix()
            if we and rng.random() < self.profile.get("ruleonprefix", 0.3):
                a = rng.choice(rng.choice(list(we.values())))     # an anchor that is a webentity prefix (often a leaf)
            return {"op": name, "anchor": a, "rule": rng.choice(RULES), "wr": rng.random() < 0.9}
        if name == "RemoveRule":
            if not self.ram:
                return None
            return {"op": name, "anchor": rng.choice(sorted(self.ram))}
        if name in ("Paginate", "PagLinks"):
            if not ids:
                return None
            # prefer webentities with many pages beneath their prefixes
            def npages(x):
                return sum(1 for l, _ in self.last_pages if any(l.startswith(p) for p in we[x]))
            ranked = sorted(ids, key=npages, reverse=True)
            w = rng.choice(ranked[:2] * 3 + ids)
            ps = list(we[w])
            rng.shuffle(ps)
            k = rng.choice([1, 1, 1, 2, 2, 3, 0]) if rng.random() < 0.93 else rng.choice([4, 5, 8])
            if name == "PagLinks" and rng.random() < 0.35:
                k = rng.choice([0, 0, 4, 6])     # answers spanning many source pages
            if name == "Paginate":
                return {"op": name, "id": w, "ps": ps, "k": k, "co": rng.random() < 0.3, "token": None}
            io = rng.choice([(True, False), (True, True), (False, True)])
            return {"op": name, "id": w, "ps": ps, "k": k, "int": io[0], "out": io[1], "token": None}
        if name == "Reopen":
            rules = sorted(self.ram.items())
            if rules and rng.random() < self.profile.get("reopen_drop", 0.0):
                rules.pop(rng.randrange(len(rules)))     # a rule the caller forgot to re-supply
            return {"op": name, "def": self.default, "rules": rules}
        if name == "Recreate":
            rules = []
            if rng.random() < 0.5:
                rules = [(u.host_prefix(), rng.choice(RULES))]
            # the new default is often the EMPTY pattern (valid, falsy) while another one is in force
            nd = rng.choice([self.default, {"k": "domain"}, {"k": "never", "n": 1}, {"k": "never", "n": 1},
                             {"k": "subdomain"}])
            return {"op": name, "def": nd, "rules": rules}
        if name == "Clear" and rng.random() < self.profile.get("clearkeep", 0.25):
            return {"op": "ClearKeep"}
        if name == "Clear":
            rules = []
            if rng.random() < 0.5:
                rules = [(u.host_prefix(), rng.choice(RULES))]
            nd = rng.choice([self.default, {"k": "domain"}, {"k": "never", "n": 1}, {"k": "never", "n": 1},
                             {"k": "subdomain"}])
            return {"op": name, "def": nd, "rules": rules}
        return None


def pages_of(op):
    n = op["op"]
    if n == "AddPage":
        return [op["l"]]
    if n == "AddPages":
        return list(op["ls"])
    if n == "AddLinks":
        return [x for p in op["pairs"] for x in p]
    if n == "IndexBatchCrawl":
        return [s for s, _ in op["data"]] + [t for _, tg in op["data"] for t in tg]
    return []
