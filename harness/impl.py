# Binding to the implementation under test: imports traph from /repo's working tree,
# replaces the storage classes (in this process only) by recording subclasses, runs
# request histories and logs, per request, arguments, result, write log, touched
# blocks and observations through the public API.  Nothing in /repo is modified.
import os
import re
import shutil
import struct
import sys
import tempfile
import warnings

REPO = os.environ.get("VERIF_REPO", "/repo")


class MachineryError(Exception):
    pass


class RequestTimeout(Exception):
    """The code under test did not return within the per-request time limit."""


class RequestRunaway(Exception):
    """One request issued an absurd number of storage writes (an unbounded loop in the code under test)."""


WRITE_BUDGET = int(os.environ.get("VERIF_WRITE_BUDGET", "4000"))   # ordinary requests issue < 200 writes


import signal  # noqa: E402

OP_TIMEOUT = float(os.environ.get("VERIF_OP_TIMEOUT", "30"))   # generous: a loaded machine must not look like a hang
TIMEOUTS = [0]   # how many calls into the code under test ran out of time in this process


def _on_alarm(signum, frame):
    TIMEOUTS[0] += 1
    raise RequestTimeout("no return within %.0fs" % OP_TIMEOUT)


class time_limit(object):
    """Bound the time one call into the code under test may take (a hang is an outcome)."""

    def __init__(self, seconds=None):
        self.seconds = seconds or OP_TIMEOUT

    def __enter__(self):
        self.old = signal.signal(signal.SIGALRM, _on_alarm)
        signal.setitimer(signal.ITIMER_REAL, self.seconds)

    def __exit__(self, *a):
        signal.setitimer(signal.ITIMER_REAL, 0)
        signal.signal(signal.SIGALRM, self.old)
        return False


def load_traph():
    """Import the package from the working tree (never a cached/installed copy)."""
    if REPO not in sys.path:
        sys.path.insert(0, REPO)
    sys.dont_write_bytecode = True
    try:
        import traph
        import traph.traph as tt
        import traph.helpers
        import traph.traph_iterator_state
    except Exception as e:  # a change that breaks import is not a property verdict
        raise MachineryError("cannot import traph from %s: %r" % (REPO, e))
    if not os.path.realpath(traph.__file__).startswith(os.path.realpath(REPO) + os.sep):
        raise MachineryError("traph imported from %s, not from %s" % (traph.__file__, REPO))
    return traph, tt


traph, tt = load_traph()
from traph.storage.file import FileStorage as _FileStorage  # noqa: E402
from traph.storage.memory import MemoryStorage as _MemoryStorage  # noqa: E402

TRIE_BS = 128
LINK_BS = 16
NODE_FMT = "75pBI6Q"
STUB_FMT = "QQ"
assert struct.calcsize(NODE_FMT) == TRIE_BS and struct.calcsize(STUB_FMT) == LINK_BS

# ---------------------------------------------------------------------------------------
# Recording storages (instrumentation from outside; see DESIGN 4.4)
# ---------------------------------------------------------------------------------------
WRITE_LOG = []  # entries: (tag, offset, is_append, bytes)  -- program order, one process


def _tag(block_size):
    return "T" if block_size == TRIE_BS else "L"


def _budget():
    if len(WRITE_LOG) > WRITE_BUDGET:
        raise RequestRunaway("more than %d storage writes in one request" % WRITE_BUDGET)


class RecFileStorage(_FileStorage):
    def write(self, data, block=None):
        _budget()
        end = len(self)
        res = _FileStorage.write(self, data, block)
        WRITE_LOG.append((_tag(self.block_size), res if block is None else block,
                          block is None or block >= end, bytes(data)))
        return res

    def raw(self):
        self.file.flush()
        pos = self.file.tell()
        self.file.seek(0)
        data = self.file.read()
        self.file.seek(pos)
        return data


class RecMemoryStorage(_MemoryStorage):
    def write(self, data, block=None):
        _budget()
        end = len(self)
        res = _MemoryStorage.write(self, data, block)
        WRITE_LOG.append((_tag(self.block_size), res if block is None else block,
                          block is None or block >= end, bytes(data)))
        return res

    def raw(self):
        return bytes(self.array)


def install():
    tt.FileStorage = RecFileStorage
    tt.MemoryStorage = RecMemoryStorage


install()

# ---------------------------------------------------------------------------------------
# Hyphe's rule family (constants of the Hyphe crawler, same text as the repo's test config)
# ---------------------------------------------------------------------------------------
_LOCAL = b"h:(localhost|(\\d{1,3}\\.){3}\\d{1,3}|\\[[\\da-f]*:[\\da-f:]*\\])\\|"
_HEADPART = b"s:[a-zA-Z]+\\|(t:[0-9]+\\|)?"


def rule_regex(rule):
    k, n = rule["k"], rule.get("n", 0)
    if k == "domain":
        return b"(" + _HEADPART + b"(h:[^\\|]+\\|(h:[^\\|]+\\|)|" + _LOCAL + b"))"
    if k == "subdomain":
        return b"(" + _HEADPART + b"(h:[^\\|]+\\|(h:[^\\|]+\\|)+|" + _LOCAL + b"))"
    if k == "path":
        return (b"(" + _HEADPART + b"(h:[^\\|]+\\|(h:[^\\|]+\\|)+|" + _LOCAL + b")"
                + b"(p:[^\\|]+\\|){%d})" % n)
    if k == "never":  # a rule that proposes nothing (used to exercise the warning path)
        return b"" if n else b"(?!)"      # n = 1: the EMPTY pattern - valid, falsy, proposes the empty prefix
    raise ValueError(rule)


def stems_of(lru):
    out, last = [], 0
    for i in range(len(lru)):
        if lru[i:i + 1] == b"|":
            out.append(lru[last:i + 1])
            last = i + 1
    if last != len(lru):
        out.append(lru[last:])  # malformed remainder (no terminator): kept visible
    return out


def real_match_len(rule, lru):
    """Number of stems the real regex covers at offset 0; None if outside the family
    (match not at 0 or not on a stem boundary)."""
    m = re.compile(rule_regex(rule), re.I).search(lru)
    if not m:
        return 0
    if m.start() != 0:
        return None
    g = m.group()
    if g == b"":
        return 0
    st = stems_of(lru)
    acc, n = b"", 0
    for s in st:
        acc += s
        n += 1
        if acc == g:
            return n
        if len(acc) > len(g):
            break
    return None


# ---------------------------------------------------------------------------------------
# Pagination tokens: "<prefix index>#<path in base 64>", the path being the base-4 digits of
# the moves from the prefix node (1 left, 2 child, 3 right).  Own decoder, independent of
# traph.helpers, so that the round trip through the text encoding is actually checked.
# ---------------------------------------------------------------------------------------
_B64 = "0123456789abcdefghijklmnopqrstuvwxyzABCDEFGHIJKLMNOPQRSTUVWXYZ-_"


def token_decode(tok):
    """-> (index, [base-4 digits]) or None if malformed."""
    try:
        i, p = tok.split("#")
        x = 0
        for c in p:
            x = x * 64 + _B64.index(c)
        digits = []
        while x:
            digits.append(x % 4)
            x //= 4
        digits.reverse()
        return int(i), digits
    except Exception:
        return None


def token_roundtrip(tok):
    """The library's own parse / build round-trip on this token and the path is made of moves only
    (whatever alphabet the text uses: the property does not fix it)."""
    import traph.helpers as th
    try:
        i, path = th.parse_pagination_token(tok)
        if th.build_pagination_token(i, path) != tok or i < 0:
            return False
        while path:
            if path % 4 == 0:
                return False
            path //= 4
        return True
    except Exception:
        return False


def token_indep(tok):
    """The independent decoder (this harness' reading of the text format) agrees with the library's."""
    import traph.helpers as th
    try:
        i, path = th.parse_pagination_token(tok)
        d = token_decode(tok)
        if d is None or d[0] != i:
            return False
        x = 0
        for g in d[1]:
            x = x * 4 + g
        return x == path
    except Exception:
        return False


# ---------------------------------------------------------------------------------------
# Decoding raw bytes
# ---------------------------------------------------------------------------------------
def _ptr(v, bs):
    return v // bs if v % bs == 0 else -1


def decode_trie_block(data):
    p, flags, we, l, r, ch, pa, o, i = struct.unpack(NODE_FMT, data)
    return {
        "payload": p, "t": bool(flags & 64), "mo": bool(flags & 32), "pg": bool(flags & 1),
        "cr": bool(flags & 2), "ru": bool(flags & 16), "nc": bool(flags & 128),
        "x": flags & (4 | 8), "we": we, "l": _ptr(l, TRIE_BS), "r": _ptr(r, TRIE_BS),
        "ch": _ptr(ch, TRIE_BS), "pa": _ptr(pa, TRIE_BS), "o": _ptr(o, LINK_BS), "i": _ptr(i, LINK_BS),
    }


def decode_trie(raw):
    """Whole trie file -> (lastId, [block dict with 'stem' bytes and chunk index 'c'])."""
    if len(raw) % TRIE_BS:
        raise MachineryError("trie file is not a whole number of blocks")
    if not raw:
        return 0, []
    last_id = struct.unpack_from("I", raw, 0)[0]
    blocks = [decode_trie_block(raw[o:o + TRIE_BS]) for o in range(TRIE_BS, len(raw), TRIE_BS)]
    n = len(blocks)
    k = 0
    while k < n:
        b = blocks[k]
        if b["t"]:            # tail that no head claims
            b["stem"], b["c"] = b["payload"], -1
            k += 1
            continue
        chain = [k]
        j = k
        while blocks[j]["mo"] and j + 1 < n and blocks[j + 1]["t"]:
            j += 1
            chain.append(j)
        stem = b"".join(blocks[c]["payload"] for c in chain)
        for c, idx in enumerate(chain):
            blocks[idx]["stem"], blocks[idx]["c"] = stem, c
        k = j + 1
    return last_id, blocks


def decode_links(raw):
    if len(raw) % LINK_BS:
        raise MachineryError("link file is not a whole number of blocks")
    out = []
    for o in range(LINK_BS, len(raw), LINK_BS):
        tg, pv = struct.unpack(STUB_FMT, raw[o:o + LINK_BS])
        out.append({"tg": _ptr(tg, TRIE_BS), "pv": _ptr(pv, LINK_BS)})
    return out


# ---------------------------------------------------------------------------------------
# Running histories
# ---------------------------------------------------------------------------------------
def exc_name(e):
    if isinstance(e, tt.TraphException):
        return "TraphException"
    return type(e).__name__


class Index(object):
    """One Traph under observation (file or memory back-end)."""

    def __init__(self, backend, default_rule, rules, folder=None):
        self.backend = backend
        self.default_rule = default_rule
        self.own_folder = None
        if backend == "file":
            if folder is None:
                folder = tempfile.mkdtemp(prefix="vt_")
                self.own_folder = folder
            self.folder = folder
        else:
            self.folder = None
        self.t = None
        self.open(default_rule, rules)

    def open(self, default_rule, rules, overwrite=False, text=False):
        """rules: list of (anchor bytes, rule dict) in dict order.  text: the anchors are given as str keys."""
        self.default_rule = default_rule
        d = {}
        for anchor, rule in rules:
            d[_as_text(anchor) if text else anchor] = rule_regex(rule)
        with warnings.catch_warnings():
            warnings.simplefilter("ignore")
            self.t = tt.Traph(folder=self.folder, default_webentity_creation_rule=rule_regex(default_rule),
                              webentity_creation_rules=d, overwrite=overwrite)

    def close(self):
        if self.t is not None:
            self.t.close()

    def destroy(self):
        try:
            self.close()
        except Exception:
            pass
        if self.own_folder:
            shutil.rmtree(self.own_folder, ignore_errors=True)

    def raw(self):
        try:
            return self.t.lru_trie_storage.raw(), self.t.links_store_storage.raw()
        except ValueError:
            # the index object is closed (a reopen failed half-way): read the files themselves
            if self.folder is None:
                raise
            out = []
            for name in ("lru_trie.dat", "link_store.dat"):
                p = os.path.join(self.folder, name)
                out.append(open(p, "rb").read() if os.path.exists(p) else b"")
            return tuple(out)


def report_dict(rep):
    created = []
    for wid, prefixes in rep.created_webentities.items():
        created.append({"id": wid if wid is not None else 0, "prefixes": list(prefixes)})
    return {"pages": rep.nb_created_pages, "created": created}


def observe(ix):
    """Observations through the public API (the abstract state a user sees).  A failing
    enumeration is itself an observation: obs['err'] names the piece and the exception."""
    t = ix.t
    obs = {"pages": [], "npages": 0, "ncrawled": 0, "nlinks": 0, "we": [], "outs": [], "ins": [],
           "lenT": 0, "lenL": 0}
    piece = "pages"
    try:
        with warnings.catch_warnings(), time_limit():
            warnings.simplefilter("ignore")
            pages = []
            for node, lru in t.pages_iter():
                pages.append((lru, bool(node.is_crawled())))
            obs["pages"] = pages
            piece = "counts"
            obs["npages"] = t.count_pages()
            obs["ncrawled"] = t.count_crawled_pages()
            obs["nlinks"] = t.count_links()
            piece = "we"
            obs["we"] = [(lru, node.webentity()) for node, lru in t.webentity_prefix_iter()]
            piece = "links"
            outs, ins = [], []
            for lru, _ in pages:
                for s, tg, w in t.get_page_links(lru, include_inbound=False, include_internal=True,
                                                 include_outbound=True):
                    outs.append((s, tg, w))
                for s, tg, w in t.get_page_links(lru, include_inbound=True, include_internal=False,
                                                 include_outbound=False):
                    ins.append((s, tg, w))
            obs["outs"] = outs
            obs["ins"] = ins
            piece = "len"
            obs["lenT"] = len(t.lru_trie_storage)
            obs["lenL"] = len(t.links_store_storage)
    except MachineryError:
        raise
    except Exception as e:
        obs["err"] = "%s:%s" % (piece, exc_name(e))
    return obs


def _as_text(x):
    """The same LRU as str when it is plain ASCII (every public method encodes text arguments)."""
    if isinstance(x, (bytes, bytearray)):
        try:
            return bytes(x).decode("ascii")
        except UnicodeDecodeError:
            return x
    if isinstance(x, tuple):
        return tuple(_as_text(v) for v in x)
    if isinstance(x, list):
        return [_as_text(v) for v in x]
    return x


class always_yield(object):
    """TraphIteratorState.should_yield forced to True (harness process only, scoped)."""

    def __enter__(self):
        import traph.traph_iterator_state as tis
        self.cls = tis.TraphIteratorState
        self.old = self.cls.should_yield

        def should_yield(self_, yield_frequency=1000):
            self_.n_iterations += 1
            return True
        self.cls.should_yield = should_yield

    def __exit__(self, *a):
        self.cls.should_yield = self.old
        return False



def apply_op(ix, op):
    """Execute one request.  op is a dict with 'op' and concrete (bytes) arguments.
    Returns dict(exc=..., pages=..., created=..., ret=...)."""
    t = ix.t
    name = op["op"]
    del WRITE_LOG[:]        # the write log (and the write budget) is per request
    if op.get("text"):      # drive the API with str arguments; the log keeps the bytes
        op = {k: (_as_text(v) if k in ("l", "ls", "pairs", "data", "ps", "p", "anchor") else v)
              for k, v in op.items()}
    res = {"exc": "", "pages": 0, "created": [], "ret": None}
    ay = always_yield() if op.get("ay") else None      # every loop iteration of the request a yield point
    if ay is not None:
        ay.__enter__()
    try:
        with warnings.catch_warnings(), time_limit():
            warnings.simplefilter("ignore")
            if name == "AddPage":
                res.update(report_dict(t.add_page(op["l"], crawled=op["cr"])))
            elif name == "AddPages":
                res.update(report_dict(t.add_pages(list(op["ls"]), crawled=op["cr"])))
            elif name == "AddLinks":
                res.update(report_dict(t.add_links([tuple(p) for p in op["pairs"]])))
            elif name == "IndexBatchCrawl":
                data = {}
                for src, tgts in op["data"]:
                    data[src] = list(tgts)
                if op.get("yf"):
                    res.update(report_dict(t.index_batch_crawl(data, yield_frequency=op["yf"])))
                else:
                    res.update(report_dict(t.index_batch_crawl(data)))
            elif name == "CreateWe":
                res.update(report_dict(t.create_webentity(list(op["ps"]))))
            elif name == "DeleteWe":
                res["ret"] = t.delete_webentity(op["id"], list(op["ps"]))
            elif name == "DeleteWeNC":
                res["ret"] = t.delete_webentity(op["id"], list(op["ps"]), check_for_corruption=False)
            elif name == "AddPrefix":
                res["ret"] = t.add_prefix_to_webentity(op["p"], op["id"])
            elif name == "RemovePrefix":
                res["ret"] = t.remove_prefix_from_webentity(op["p"], op["id"] or False)
            elif name == "MovePrefix":
                mv = t.move_prefix_to_webentity_from_webentity if op.get("alias") else t.move_prefix_to_webentity
                res["ret"] = mv(op["p"], op["to"], op["frm"] or False)
            elif name == "AddRule":
                res.update(report_dict(t.add_webentity_creation_rule(
                    op["anchor"], rule_regex(op["rule"]), write_in_trie=op["wr"])))
            elif name == "RemoveRule":
                res["ret"] = t.remove_webentity_creation_rule(op["anchor"])
            elif name == "Paginate":
                res["ret"] = t.paginate_webentity_pages(
                    op["id"], list(op["ps"]), page_count=op["k"] or None,
                    pagination_token=op["token"], crawled_only=op["co"])
            elif name == "PagLinks":
                res["ret"] = t.paginate_webentity_pagelinks(
                    op["id"], list(op["ps"]), include_internal=op["int"], include_outbound=op["out"],
                    source_page_count=op["k"] or None, pagination_token=op["token"])
            elif name == "Reopen":
                ix.close()
                ix.open(op["def"], op["rules"], text=bool(op.get("text")))
            elif name == "Recreate":
                # a new index object on the same folder with overwrite=True (memory: a new object)
                ix.close()
                ix.open(op["def"], op["rules"], overwrite=True, text=bool(op.get("text")))
            elif name == "ClearKeep":
                t.clear()        # no arguments: the files are emptied, the RAM rules are kept as they are
            elif name == "Clear":
                d = {}
                for anchor, rule in op["rules"]:
                    d[_as_text(anchor) if op.get("text") else anchor] = rule_regex(rule)
                ix.default_rule = op["def"]
                t.clear(default_webentity_creation_rule=rule_regex(op["def"]),
                        webentity_creation_rules=d)
            else:
                raise MachineryError("unknown op %r" % name)
    except MachineryError:
        raise
    except Exception as e:  # the outcome of the request, judged by the spec
        res["exc"] = exc_name(e)
        res["msg"] = repr(e)[:200]
    finally:
        if ay is not None:
            ay.__exit__(None, None, None)
    return res


def run_history(backend, default_rule, rules, ops, hook=None, folder=None):
    """Run a history; returns list of step logs (concrete).  hook(ix, i, op, res) may add
    property-specific query answers: its return value is stored under 'q'."""
    del WRITE_LOG[:]
    ix = Index(backend, default_rule, rules, folder=folder)
    steps = []
    try:
        raw_t, raw_l = ix.raw()
        init = {"op": "Init", "w": list(WRITE_LOG), "rawT": raw_t, "rawL": raw_l, "obs": observe(ix)}
        if hook:
            init["q"] = hook(ix, 0, None, None)
        steps.append(init)
        for i, op in enumerate(ops):
            del WRITE_LOG[:]
            res = apply_op(ix, op)
            w = list(WRITE_LOG)
            raw_t, raw_l = ix.raw()
            del WRITE_LOG[:]
            st = {"op": op, "res": res, "w": w, "rawT": raw_t, "rawL": raw_l, "obs": observe(ix)}
            if WRITE_LOG:
                st["obs_wrote"] = len(WRITE_LOG)   # a read-only observation wrote (C14 material)
            if hook:
                st["q"] = hook(ix, i + 1, op, res)
            steps.append(st)
    finally:
        ix.destroy()
    return steps
