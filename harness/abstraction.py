# Abstraction: concrete byte-level logs -> the specification's vocabulary (stem ranks).
# A stem's rank is its position in the byte order of all whole stems occurring anywhere
# in the batch (arguments, results, observations, decoded file blocks), so rank order
# in TLA+ is byte order in Python, and two byte strings get the same rank iff they are
# byte-identical.  StemTab carries the per-stem attributes the behaviour depends on.
import re

from impl import (decode_links, decode_trie, stems_of, TRIE_BS, LINK_BS, MachineryError)

PAYLOAD = 74

_OK = {
    "s": re.compile(rb"s:[a-zA-Z]+\|\Z", re.I),
    "t": re.compile(rb"t:[0-9]+\|\Z", re.I),
    "h": re.compile(rb"h:[^\|]+\|\Z", re.I),
    "p": re.compile(rb"p:[^\|]+\|\Z", re.I),
}
_LOCAL = re.compile(rb"h:(localhost|(\d{1,3}\.){3}\d{1,3}|\[[\da-f]*:[\da-f:]*\])\|\Z", re.I)
WWW = b"h:www|"
FLIP = {b"s:http|": b"s:https|", b"s:https|": b"s:http|"}


class Stem(object):
    """Marks a byte string that is ONE stem (a block payload), not an LRU."""
    __slots__ = ("b",)

    def __init__(self, b):
        self.b = bytes(b)


def stem_attrs(s):
    kind = {b"s:": "s", b"t:": "t", b"h:": "h", b"p:": "p"}.get(s[:2], "o")
    ok = bool(kind != "o" and _OK[kind].match(s))
    return {"len": len(s), "kind": kind, "ok": ok, "www": s == WWW,
            "local": bool(_LOCAL.match(s))}


class StemTable(object):
    def __init__(self):
        self.stems = set()
        self.rank = None

    def note(self, x):
        """Collect every stem inside a nested structure."""
        if isinstance(x, Stem):
            self._add(x.b)
        elif isinstance(x, (bytes, bytearray)):
            for s in stems_of(bytes(x)):
                self._add(s)
        elif isinstance(x, dict):
            for v in x.values():
                self.note(v)
        elif isinstance(x, (list, tuple)):
            for v in x:
                self.note(v)

    def _add(self, s):
        self.stems.add(s)
        if s in FLIP:
            self.stems.add(FLIP[s])

    def finalize(self, with_www=True):
        if with_www:
            self.stems.add(WWW)
        order = sorted(self.stems)
        self.rank = {s: i + 1 for i, s in enumerate(order)}
        self.order = order
        tab = []
        for s in order:
            a = stem_attrs(s)
            a["flip"] = self.rank[FLIP[s]] if s in FLIP else 0
            tab.append(a)
        return tab

    def conv(self, x):
        """Convert a nested concrete structure to JSON-able rank space."""
        if isinstance(x, Stem):
            return self.rank[x.b]
        if isinstance(x, (bytes, bytearray)):
            return [self.rank[s] for s in stems_of(bytes(x))]
        if isinstance(x, dict):
            return {k: self.conv(v) for k, v in x.items()}
        if isinstance(x, (list, tuple)):
            return [self.conv(v) for v in x]
        if x is None:
            raise MachineryError("None inside a trace record")
        if isinstance(x, float):
            if x != int(x):
                return -1      # a figure that should be a whole number and is not: never equal to the specification's
            return int(x)
        return x

    def lru_bytes(self, ranks):
        return b"".join(self.order[r - 1] for r in ranks)


BLOCK_FIELDS = ("t", "mo", "pg", "cr", "ru", "nc", "x", "we", "l", "r", "ch", "pa", "o", "i")


def block_record(b):
    r = {k: b[k] for k in BLOCK_FIELDS}
    r["s"] = Stem(b["stem"])
    r["c"] = b["c"]
    r["nb"] = len(b["payload"])
    return r


def store_diff(pre, post):
    """pre/post: (lastId, trie blocks, link stubs) decoded.  Returns diff entries."""
    d = []
    pid, ptr, pls = pre
    qid, qtr, qls = post
    if len(qtr) < len(ptr) or len(qls) < len(pls):
        raise MachineryError("a store shrank outside Clear")
    for k, b in enumerate(qtr):
        rec = block_record(b)
        if k >= len(ptr) or block_record_cmp(ptr[k]) != block_record_cmp(b):
            d.append({"f": "T", "i": k + 1, "b": rec})
    for k, s in enumerate(qls):
        if k >= len(pls) or pls[k] != s:
            d.append({"f": "L", "i": k + 1, "b": dict(s)})
    return d, qid


def block_record_cmp(b):
    return tuple(b[k] for k in BLOCK_FIELDS) + (b["stem"], b["c"], b["payload"])


def write_order(wlog):
    out = []
    for tag, off, app, data in wlog:
        bs = TRIE_BS if tag == "T" else LINK_BS
        if off % bs:
            raise MachineryError("write at an offset that is not a block boundary")
        idx = off // bs
        if idx == 0:
            out.append({"f": "H" if tag == "T" else "LH", "i": 0, "app": False})
        else:
            out.append({"f": tag, "i": idx, "app": bool(app)})
    return out


def decode_state(raw_t, raw_l):
    lid, tr = decode_trie(raw_t)
    ls = decode_links(raw_l)
    return (lid, tr, ls)


EMPTY = (0, [], [])


def concrete_steps_to_trace(steps):
    """Turn run_history() output into trace steps (still concrete bytes, Stem-marked)."""
    out = []
    pre = EMPTY
    for st in steps:
        if "err" in st["obs"]:
            # the public enumerations failed after this request: the trace ends before it
            abort = {"step": len(out) + 1, "err": st["obs"]["err"],
                     "op": st["op"] if st["op"] == "Init" else st["op"]["op"]}
            return out, abort
        post = decode_state(st["rawT"], st["rawL"])
        op = st["op"]
        if op == "Init" or (isinstance(op, dict) and op["op"] in ("Clear", "Recreate", "ClearKeep")):
            diff, lid = store_diff(EMPTY, post)
            reset = True
        else:
            diff, lid = store_diff(pre, post)
            reset = False
        q = st.get("q") or {"none": 0}
        if "final" in q and "gens" in q["final"]:
            q = dict(q)
            q["final"] = dict(q["final"])
            q["final"]["gens"] = [conv_gen(g) for g in q["final"]["gens"]]
        rec = {"w": write_order(st["w"]), "d": diff, "lastId": lid, "reset": reset,
               "nT": len(post[1]), "nL": len(post[2]), "obs": conv_obs(st["obs"]),
               "q": q}
        if op == "Init":
            rec.update({"op": "Init", "a": {"none": 0}, "exc": "", "pages": 0, "created": []})
        else:
            a = {k: v for k, v in op.items() if k not in ("op", "text")}
            res = st["res"]
            rec.update({"op": op["op"], "a": conv_args(op["op"], a), "exc": res["exc"],
                        "pages": res["pages"], "created": res["created"]})
        out.append(rec)
        pre = post
    return out, None


def conv_rules(rules):
    return [{"anchor": a, "rule": norm_rule(r)} for a, r in rules]


def norm_rule(r):
    return {"k": r["k"], "n": r.get("n", 0)}


def conv_args(name, a):
    a = dict(a)
    if "rule" in a:
        a["rule"] = norm_rule(a["rule"])
    if "def" in a:
        a["def"] = norm_rule(a["def"])
    if "rules" in a:
        a["rules"] = conv_rules(a["rules"])
    if name == "IndexBatchCrawl":
        a["data"] = [{"src": s, "tgts": list(t)} for s, t in a["data"]]
    if name == "CoopBegin":
        a["gens"] = [conv_gen(g) for g in a["gens"]]
    if name in ("Paginate", "PagLinks"):
        from impl import token_decode
        tok = a.pop("token")
        d = token_decode(tok) if tok else None
        a["hasTok"] = bool(tok)
        a["ti"] = d[0] if d else 0
        a["tpath"] = list(d[1]) if d else []
        a["badTok"] = bool(tok) and d is None
    if not a:
        a = {"none": 0}
    return a


def conv_gen(g):
    g = dict(g)
    if g["kind"] == "crawl":
        g["data"] = [{"src": s, "tgts": list(t)} for s, t in g["data"]]
    if "rule" in g:
        g["rule"] = norm_rule(g["rule"])
    if g["kind"] in ("qpages", "qcrawled"):
        g = {"kind": "qpages", "ps": list(g["ps"]), "oc": g["kind"] == "qcrawled"}
    elif g["kind"] in ("qoutlinks", "qinlinks"):
        g = {"kind": "qlinks", "ps": list(g["ps"]), "out": g["kind"] == "qoutlinks"}
    elif g["kind"] == "qchildren":
        g = {"kind": "qchildren", "id": g["id"], "ps": list(g["ps"])}
    elif g["kind"] == "qpagelinks":
        g = {"kind": "qpagelinks", "id": g["id"], "ps": list(g["ps"])}
    elif g["kind"] in ("qnet", "qnetslow"):
        g = {"kind": g["kind"], "out": bool(g["out"]), "auto": bool(g["auto"])}
    elif g["kind"] == "qtop":
        g = {"kind": "qtop", "ps": list(g["ps"]), "k": g["k"], "depth": g["depth"]}
    elif g["kind"].startswith("q"):
        g = {"kind": "query"}
    return g


def conv_obs(o):
    return {
        "pages": [{"l": l, "cr": c} for l, c in o["pages"]],
        "npages": o["npages"], "ncrawled": o["ncrawled"],
        # count_links() is (blocks - 1) / 2: half-integral while a generator request is in progress
        "nlinks": int(o["nlinks"]) if o["nlinks"] == int(o["nlinks"]) else -1,
        "we": [{"l": l, "id": w} for l, w in o["we"]],
        "outs": [{"s": s, "t": t, "w": w} for s, t, w in o["outs"]],
        "ins": [{"s": s, "t": t, "w": w} for s, t, w in o["ins"]],
        "lenT": o["lenT"], "lenL": o["lenL"],
    }


def build_batch(traces, extra=None):
    """traces: list of dict(id, backend, def, rules, steps(concrete)).  Returns the batch
    dict (JSON-able) and the stem table."""
    tab = StemTable()
    for tr in traces:
        tab.note(tr["steps"])
        tab.note([a for a, _ in tr["rules"]])
    if extra is not None:
        tab.note(extra)
    stemtab = tab.finalize()
    out = []
    for tr in traces:
        out.append({"id": tr["id"], "backend": tr["backend"], "def": norm_rule(tr["def"]),
                    "rules": tab.conv(conv_rules(tr["rules"])), "src": tr.get("src", ""),
                    "pairid": tr.get("pairid", -1), "pairname": tr.get("pairname", ""),
                    "steps": tab.conv(tr["steps"])})
    batch = {"stems": stemtab, "www": tab.rank[WWW], "traces": out}
    if extra is not None:
        batch["extra"] = tab.conv(extra)
    return batch, tab
