#!/bin/sh
# usage: seedtest.sh <seed-dir-name> <PID>...   applies seeded/<name>/patch.diff to /repo, runs the quick checks, reverts.
name=$1; shift
cd /repo || exit 2
test -z "$(git status --porcelain)" || { echo "/repo not clean"; exit 2; }
git apply /verif/seeded/$name/patch.diff || { echo "patch does not apply"; exit 2; }
trap 'cd /repo && git checkout -q -- . ' EXIT INT TERM
cd /verif
for p in "$@"; do
  out=$(./check $p --tier ${TIER:-quick} 2>&1); rc=$?
  nv=$(echo "$out" | grep -c '^VIOLATION')
  first=$(echo "$out" | grep '^VIOLATION' | head -1 | sed 's/.*clause=//')
  drift=$(echo "$out" | grep -c '^MODEL-DRIFT')
  echo "seed=$name check=$p exit=$rc violations=$nv drift=$drift first=[$first]"
  if [ $rc -eq 2 ]; then echo "$out" | tail -15; fi
done
