#!/bin/sh
# Like seedmatrix.sh, but every seeded change is applied to its own scratch worktree of /repo (VERIF_REPO),
# JOBS at a time, so that /repo itself is left alone (usable while a long run is using /repo).
# Output: seeded/MATRIX.txt (sorted by seed).
jobs=${JOBS:-4}
out=/verif/seeded/MATRIX.txt
tmp=$(mktemp -d /tmp/vt_matrix_XXXXXX)
ls -d /verif/seeded/*/ | while read d; do
  n=$(basename $d)
  test -f $d/patch.diff || continue
  case $n in benign-*) continue;; esac
  if grep -q '"status": "obsolete' $d/meta.json 2>/dev/null; then echo "seed=$n obsolete (see meta.json)" > $tmp/$n.log; continue; fi
  echo $n
done | xargs -P $jobs -I{} sh -c 'p=$(echo {} | sed "s/-.*//"); /verif/harness/seedtest_wt.sh /verif/seeded/{}/patch.diff {} $p > '$tmp'/{}.log 2>&1'
cat $tmp/*.log > $out
rm -rf $tmp
grep -c "exit=1" $out
