#!/venv/bin/python
# Regenerates /verif/MANIFEST.json from the check registry (harness/props.py).
import json
import os
import sys

HERE = os.path.dirname(os.path.abspath(__file__))
VERIF = os.path.dirname(HERE)
sys.path.insert(0, HERE)
import props  # noqa: E402

ids = [json.loads(l)["id"] for l in open(os.path.join(VERIF, "properties.jsonl"))]

NOTE = ("Trusted base: TLC; the Python abstraction layer (bytes <-> stem ranks, ~150-line block decoder using the "
        "repository's struct formats); storages wrapped from outside. Exhaustive results hold within the "
        "configuration's constants; beyond them the property is decided on the replayed behaviours only.")

checks = []
for pid in ids:
    if pid not in props.P:
        continue
    c = props.P[pid]
    mc = ", ".join("MC_%s" % m[0] for m in c["mc"]) or "(trace validation only)"
    checks.append({
        "property_id": pid,
        "quick_cmd": "./check %s --tier quick" % pid,
        "thorough_cmd": "./check %s --tier thorough" % pid,
        "evidence_file": "/verif/evidence/%s.json" % pid,
        "replay_cmd_template": "./check %s --replay {path}" % pid,
        "engine": "tlc-traph",
        "level_claimed": {
            "category": c.get("level", "model_checking"),
            "text": c.get("level_text") or (
                "TLC checks the property's invariants exhaustively on the lockstep block/abstract model (%s) for "
                "all request histories within the bound, and TLC validates, clause by clause, traces recorded from "
                "the real code (random histories over real byte LRUs, both back-ends) against the same "
                "specification; a verdict is only ever about real executions." % mc),
            "design_ref": "DESIGN.md section 5, " + pid,
        },
        "level_note": c.get("level_note") or NOTE,
        "technique": c.get("technique") or
        "TLA+ spec (TraphImpl/TraphAbs) model-checked with TLC + TLC trace validation of real executions",
    })

na = []
for pid in ids:
    if pid not in props.P:
        na.append({"property_id": pid, "reason": props.NOT_YET.get(pid, "check not built yet (work in progress)")})

m = {
    "version": 1,
    "setup_cmd": "cd /verif && ./setup.sh",
    "hooks": {
        "guard": "MEDIALAB_HYPHE_TRAPH_VERIF",
        "enable": "no source hooks: the harness process replaces traph.traph.FileStorage/MemoryStorage by recording "
                  "subclasses and wraps public methods from outside (harness/impl.py); nothing to build",
        "baseline_off_cmd": "cd /repo && /venv/bin/python -m pytest -q -p no:cacheprovider",
        "source_commits": [],
        "add_only": True,
    },
    "engines": [{
        "name": "tlc-traph", "path": "/verif/check",
        "serves_properties": [c["property_id"] for c in checks],
        "kind_free_text": "explicit TLA+ specification (spec/*.tla) checked with TLC: exhaustive model checking of "
                          "small configurations + trace validation of executions of the real code; Python harness "
                          "drives /repo's working tree and abstracts bytes to the spec vocabulary",
    }],
    "checks": checks,
    "notes": "Exit codes: 0 held (possibly KNOWN-FINDING / MODEL-DRIFT lines), 1 VIOLATION, 2 machinery failure. "
             "Fixes of genuine defects are 'fix:' commits in /repo, listed in known_findings.json.",
    "not_applicable": na,
}
json.dump(m, open(os.path.join(VERIF, "MANIFEST.json"), "w"), indent=1)
print("checks:", [c["property_id"] for c in checks], "not yet:", [x["property_id"] for x in na])
