#!/venv/bin/python
# Regenerates /verif/MANIFEST.json from the check registry (harness/props.py).
import json
import os
import sys

HERE = os.path.dirname(os.path.abspath(__file__))
VERIF = os.path.dirname(HERE)
sys.path.insert(0, HERE)
import props  # noqa: E402

ids = [json.loads(l)["id"] for l in open(os.path.join(VERIF, "properties.jsonl"))]

NOTE = ("Trusted base: TLC; the Python abstraction layer (bytes <-> stem ranks, ~150-line block decoder using the "
        "repository's struct formats); storages wrapped from outside. Exhaustive results hold within the "
        "configuration's constants; beyond them the property is decided on the replayed behaviours only.")

SPECIFIC = {
 "C01": "invariants PageSet/Refines on the lockstep model; clauses C01.pages/.crawled/.counts/.report/.nodup compare the abstract page-insertion semantics applied to the state the implementation itself reports with what it reports afterwards",
 "C02": "invariants Structure (TstInv)/Findable/DfsComplete, also over every insertion order of five sibling stems (MC_bst); on real files: TstInv on the decoded blocks after every request, findable set = pre + named, three access paths over a probe grid incl. absent LRUs, stems at block-payload multiples and raw bytes",
 "C03": "invariant LinkSymmetry; clauses C03.out/.in/.count/.iter/.degree over histories with repeats, self links, source-is-target, empty target lists",
 "C04": "invariants Resolution/OneIdPerPrefix (MC_core, MC_we); clauses C04.edit/.refuse/.resolve/.prefix/.byprefix over a probe grid of present, partially present and absent LRUs, queries issued with locality",
 "C05": "invariant WePagesInv (block traversal = declarative page set, any prefix order); relational clauses C05.iff/.nodup/.marks/.crawledonly/.partition between reported page sets and reported resolution",
 "C06": "refinement of the decision ladder (PageStep by AbsPage) in MC_core/MC_we/MC_wesub; clauses C06.created/.exc/.potential; rule installation compared up to the order of re-insertion; spec Match cross-checked against the real regexes",
 "C07": "invariant NetworkInv (fast and slow algorithms = aggregate, both directions, auto on/off); relational clauses C07.agg/.slow/.transpose/.tallies/.once",
 "C08": "invariant WeLinksInv (7 switch combinations); relational clauses C08.pagelinks/.once/.cited/.citing/.degree/.membership",
 "C09": "invariant PaginationInv (every page size 1..n+1, every resume point, crawled-only on/off); PagSession/MC_pag: a session interleaved with page insertions in every possible way (TokenValid, NoRepeat, NothingSkipped, NoInvention, ExactSize, Ordered); session clauses with page insertions between calls, exact prediction of every answer and token (bind.pag); Token/MC_token: encode/decode round trip for every path up to 9 moves, rows from the real token helpers (paths up to 90 moves) judged by TLC",
 "C10": "invariant PagLinksInv; session clauses C10.resume/.size/.once/.subset/.union/.token, exact prediction bind.pagl",
 "C11": "DoReopen/DoClear are requests of the lockstep model (MC_life, action property LifeCycle) and its behaviours are replayed into the real code; lockstep twin that is never closed (C11.twin.*), C11.same/.answers on every reopen, C11.clear against a real fresh index, overwrite=True re-creation",
 "C12": "invariants IdsBounded/Monotone (also across reopen and clear in MC_life); histories issuing exactly 255/256 ids before close, reopen, create; C12.fresh judged against the largest id the trace has seen issued (survives deletions and reopen), C12.distinct, C12.shared; reopen-right-after-creation pattern",
 "C13": "invariants FlagInv/HierarchyInv (pruned traversal = declarative children); relational clauses C13.parents/.children",
 "C14": "every query is UNCHANGED store in the spec; on the real code SHA-256 of both stores around every read-only request over an argument grid (absent LRUs, unknown webentities, wrong prefixes, bad tokens, forgotten rules)",
 "C15": "both back-ends validated against the same deterministic spec and against each other step by step (results, enumerations, touched blocks, answers); mmap reader probed right after each request",
 "C16": "ALL interleavings of 2-3 generators model-checked (MC_coop, MC_coopnet; spec mutants show the lost update); every next() of the real generators (crawl, rule, page, cited/citing, child, page-link, fast and slow network, most-linked queries) validated against TraphCoop!RunGen; C16.final/.sym; C16.bounds against intersection/union/stable witnesses of the answers TLC computes for every moment of each query's execution; known findings F11, F12 have their own clauses",
 "C17": "the whole LRU grammar is the state space of MC_var, every law an invariant; rows from lru_variations / expand_prefix (fresh and long-lived index) / automatic creation judged against the token-level definition",
 "C18": "CrashSafe: every cut of every request's write list in every small history (MC_crash); every cut (block and byte granularity) of real write logs materialized and reopened by the real code, rows judged by TLC (CrashRows)",
 "C19": "invariant Accounting and action property Monotone; clauses C19.trie/.links/.len/.readd/.metrics with stems at 75..148 bytes and exact multiples; unreferenced blocks via TstInv",
 "C20": "invariant TopInv (heap semantics = declarative top-k, every k and depth); relational clauses C20.subset/.size/.order/.indegree/.topk; the known finding has its own clause",
}

checks = []
for pid in ids:
    if pid not in props.P:
        continue
    c = props.P[pid]
    mc = ", ".join("MC_%s" % m[0] for m in c["mc"]) or "(trace validation only)"
    checks.append({
        "property_id": pid,
        "quick_cmd": "./check %s --tier quick" % pid,
        "thorough_cmd": "./check %s --tier thorough" % pid,
        "evidence_file": "/verif/evidence/%s.json" % pid,
        "replay_cmd_template": "./check %s --replay {path}" % pid,
        "engine": "tlc-traph",
        "level_claimed": {
            "category": c.get("level", "model_checking"),
            "text": c.get("level_text") or ((SPECIFIC.get(pid, "") + ". ") if pid in SPECIFIC else "") + (
                "TLC checks the property's invariants exhaustively on the lockstep block/abstract model (%s) for "
                "all request histories within the bound, and TLC validates, clause by clause, traces recorded from "
                "the real code (random histories over real byte LRUs, both back-ends) against the same "
                "specification; a verdict is only ever about real executions." % mc),
            "design_ref": "DESIGN.md section 5, " + pid,
        },
        "level_note": c.get("level_note") or NOTE,
        "technique": c.get("technique") or
        "TLA+ spec (TraphImpl/TraphAbs) model-checked with TLC + TLC trace validation of real executions",
    })

na = []
for pid in ids:
    if pid not in props.P:
        na.append({"property_id": pid, "reason": props.NOT_YET.get(pid, "check not built yet (work in progress)")})

m = {
    "version": 1,
    "setup_cmd": "cd /verif && ./setup.sh",
    "hooks": {
        "guard": "MEDIALAB_HYPHE_TRAPH_VERIF",
        "enable": "no source hooks: the harness process replaces traph.traph.FileStorage/MemoryStorage by recording "
                  "subclasses and wraps public methods from outside (harness/impl.py); nothing to build",
        "baseline_off_cmd": "cd /repo && /venv/bin/python -m pytest -q -p no:cacheprovider",
        "source_commits": [],
        "add_only": True,
    },
    "engines": [{
        "name": "tlc-traph", "path": "/verif/check",
        "serves_properties": [c["property_id"] for c in checks],
        "kind_free_text": "explicit TLA+ specification (spec/*.tla) checked with TLC: exhaustive model checking of "
                          "small configurations + trace validation of executions of the real code; Python harness "
                          "drives /repo's working tree and abstracts bytes to the spec vocabulary",
    }],
    "checks": checks,
    "notes": "Exit codes: 0 held (possibly KNOWN-FINDING / MODEL-DRIFT lines), 1 VIOLATION, 2 machinery failure. "
             "Fixes of genuine defects are 'fix:' commits in /repo, listed in known_findings.json.",
    "not_applicable": na,
}
json.dump(m, open(os.path.join(VERIF, "MANIFEST.json"), "w"), indent=1)
print("checks:", [c["property_id"] for c in checks], "not yet:", [x["property_id"] for x in na])
