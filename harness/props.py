# Per-property configuration and the generic check procedure.
import hashlib
import json
import os
import sys
import random
import time

import checklib
import tlcgen
from checklib import Machinery, VERIF, b2s, s2b, load_known, run_mc, save_replay, write_evidence

try:
    import impl
    import gen
    import runner
    import hooks
except impl.MachineryError as e:  # pragma: no cover
    raise Machinery(str(e))
except Exception as e:  # import of the package under test failed, etc.
    raise

WRITE_OPS = {"AddPage", "AddPages", "AddLinks", "IndexBatchCrawl"}
WE_OPS = {"CreateWe", "DeleteWe", "DeleteWeNC", "AddPrefix", "RemovePrefix", "MovePrefix"}
RULE_OPS = {"AddRule", "RemoveRule"}
LIFE_OPS = {"Init", "Reopen", "Clear", "Recreate", "ClearKeep"}
ALL_OPS = WRITE_OPS | WE_OPS | RULE_OPS | LIFE_OPS

BASE_PROFILE = {"nlrus": 14, "long": 0.35, "raw": 0.2, "prefixy": 0.25, "adversarial": 0.0}

COMMON_ASSUMPTIONS = [
    "TLC explores the model exhaustively only within the stated constants and depth bound",
    "stems are abstracted to ranks in byte order plus an attribute table (harness/abstraction.py); "
    "the ~150-line decoder of the two block files uses the repository's own struct formats",
    "rules are drawn from Hyphe's family (domain, subdomain, path-N); inputs on which a rule's regex "
    "matches elsewhere than at offset 0 / a stem boundary are dropped and counted",
    "storage classes are wrapped from outside in the harness process; /repo is not modified",
]

# ---------------------------------------------------------------------------------------
# Registry
# ---------------------------------------------------------------------------------------
P = {}


def reg(pid, **kw):
    d = dict(mc=[("core", 4, 5)], profile={}, backends=("file", "memory"), n=(120, 1500), steps=(16, 24),
             hook=None, prefixes=None, exc_ops=set(), obs_fail=True, nontrivial=None, weights=None,
             extra_sources=())
    d.update(kw)
    if "extra_sources" not in kw and not d.get("custom") and not d.get("roles") and not d.get("maker") \
            and d["mc"] and d["mc"][0][0] == "core":
        d.setdefault("gen_mc", "core")
        d["extra_sources"] = (tlcgen.tlc_traces, tlcgen.repo_test_traces)
    d["prefixes"] = d["prefixes"] or [pid + "."]
    P[pid] = d


NT_DESC = {
    "nt_pages": "the final index holds at least 4 pages",
    "nt_links": "the final index holds at least 3 distinct links, one of them with weight > 1",
    "nt_we": "the final index has nested webentity prefixes or at least 3 webentities",
    "nt_long": "some stem longer than one block (74 bytes) was written",
    "<lambda>": "at least 6 generator steps were scheduled",
}


def nt_pages(tr):
    o = tr["steps"][-1]["obs"] if tr["steps"] else None
    return bool(o) and len(o["pages"]) >= 4


def nt_links(tr):
    o = tr["steps"][-1]["obs"] if tr["steps"] else None
    return bool(o) and any(e["w"] > 1 for e in o["outs"]) and len(o["outs"]) >= 3


def nt_we(tr):
    o = tr["steps"][-1]["obs"] if tr["steps"] else None
    if not o:
        return False
    ls = [tuple(e["l"]) for e in o["we"]]
    nested = any(a != b and len(a) < len(b) and b[:len(a)] == a for a in ls for b in ls)
    return nested or len(set(e["id"] for e in o["we"])) >= 3


def nt_long(tr):
    return any(len(b["b"]["s"].b) > 74 for s in tr["steps"] for b in s["d"] if b["f"] == "T")


def scale_traces(pid, cfg, tier, seed, work, first_id, hook=None):
    """A history far beyond the small universes: more than a thousand sibling stems submitted in order (a
    sibling tree that degenerates into a chain deeper than the interpreter's default recursion limit), then a
    known page re-submitted.  One trace in the quick tier, three in the thorough tier."""
    out = []
    variants = [("memory", 1100, False)] + ([("file", 1100, True), ("memory", 1300, False)] if tier != "quick" else [])
    for j, (be, n, desc) in enumerate(variants):
        site = b"s:http|h:com|h:list|"
        kids = [site + b"p:a%04d|" % i for i in range(n)]
        if desc:
            kids.reverse()
        ops = [{"op": "AddPages", "ls": kids[c:c + 100], "cr": False} for c in range(0, n, 100)]
        ops += [{"op": "AddPage", "l": kids[3], "cr": True}, {"op": "AddLinks", "pairs": [(kids[-1], kids[0])]}]
        out.append(runner.run_fixed(be, {"k": "domain"}, [], ops, hook=hook, tid=first_id + j, src="scale"))
    return out, {"scale_histories": len(out)}


reg("C01", exc_ops=WRITE_OPS, nontrivial=nt_pages,
    extra_sources=(tlcgen.tlc_traces, tlcgen.repo_test_traces, scale_traces),
    weights={"AddPage": 25, "AddPages": 14, "AddLinks": 14, "IndexBatchCrawl": 16, "AddRule": 9},
    profile={"longfirst": 0.45, "mutual": 0.3, "text": 0.3}, n=(150, 1500),
    title="Page set fidelity")
reg("C02", exc_ops=ALL_OPS, nontrivial=nt_pages, hook="lookup", mc=[("core", 4, 5), ("bst", 5, 6)],
    gen_mc=("core", "bst"),
    profile={"long": 0.6, "raw": 0.5, "prefixy": 0.5}, title="Findability / TST invariants")
reg("C03", exc_ops={"AddLinks", "IndexBatchCrawl"}, nontrivial=nt_links, hook="links",
    mc=[("core", 4, 5), ("links", 4, 6)], gen_mc="links",
    weights={"AddLinks": 24, "IndexBatchCrawl": 30, "AddPage": 10, "Clear": 3},
    profile={"nlrus": 9, "raw": 0.1, "long": 0.2}, n=(160, 2000), title="Link multigraph")
reg("C04", exc_ops=WE_OPS, nontrivial=nt_we, hook="resolve", mc=[("core", 4, 5), ("we", 4, 5)], gen_mc="we",
    extra_sources=(tlcgen.tlc_traces, tlcgen.repo_test_traces, scale_traces),
    weights={"CreateWe": 14, "DeleteWe": 8, "AddPrefix": 10, "RemovePrefix": 8, "MovePrefix": 8,
             "AddPage": 14, "AddRule": 8, "RemoveRule": 6},
    profile={"raw": 0.0, "long": 0.15, "bigids": 0.35}, title="Longest-prefix resolution")
reg("C05", exc_ops=set(), nontrivial=nt_we, hook="wepages", obs_fail=True,
    # "with correct marks": the marks the webentity queries report are compared with the page enumeration
    # (C05.marks), and the enumeration with the submissions (C01.crawled): both links are needed
    prefixes=["C05.", "C01.crawled"],
    weights={"CreateWe": 12, "AddPrefix": 8, "MovePrefix": 5, "AddRule": 6, "IndexBatchCrawl": 18},
    profile={"raw": 0.0, "long": 0.3, "nlrus": 12, "deeppath": 0.005}, title="Webentity page sets")
reg("C06", exc_ops=WRITE_OPS | RULE_OPS, nontrivial=nt_we, hook="potential",
    mc=[("core", 4, 5), ("we", 4, 5), ("wesub", 0, 5)],
    gen_mc="we",
    weights={"AddRule": 14, "RemoveRule": 4, "AddPage": 25, "DeleteWe": 12, "Clear": 5},
    profile={"raw": 0.0, "long": 0.15, "adversarial": 0.4, "redeclare": 0.8}, title="Automatic creation")
reg("C07", exc_ops=set(), nontrivial=nt_links, hook="network", obs_fail=False,
    weights={"AddLinks": 24, "IndexBatchCrawl": 16, "CreateWe": 10, "AddPrefix": 10, "RemovePrefix": 5, "DeleteWe": 5},
    profile={"raw": 0.0, "long": 0.1, "nlrus": 12, "bigids": 0.65, "prefixlinks": 0.3, "siblinks": 0.25},
    title="Webentity network")
reg("C08", exc_ops=set(), nontrivial=nt_links, hook="welinks", obs_fail=False,
    weights={"AddLinks": 24, "IndexBatchCrawl": 16, "CreateWe": 10, "AddPrefix": 10, "RemovePrefix": 5, "DeleteWe": 5},
    profile={"raw": 0.0, "long": 0.1, "nlrus": 12, "homelinks": 0.3, "prefixlinks": 0.4, "siblinks": 0.3, "bigids": 0.5}, n=(130, 1000), steps=(14, 20),
    title="Per-webentity link queries")
def token_rows(seed, only=None):
    """Rows for spec/TokenRows.tla: the real token helpers on every path of up to 6 moves, on long random
    paths (far beyond 64 bits) and on a few prefix indexes."""
    import itertools
    import traph.helpers as th
    rng = random.Random(seed * 13 + 1)
    paths = [list(p) for n in range(0, 7) for p in itertools.product((1, 2, 3), repeat=n)]
    for _ in range(300):
        paths.append([rng.choice((1, 2, 3)) for _ in range(rng.choice([7, 8, 9, 15, 16, 17, 31, 32, 33, 48, 64, 90]))])
    rows = []
    if only is not None:
        paths = [list(only[1])]
    for k, path in enumerate(paths):
        i = rng.choice([0, 0, 1, 2, 3, 17, 256]) if only is None else only[0]
        x = 0
        for g in path:
            x = th.base4_append(x, g)
        row = {"id": k, "i": i, "path": path, "text": [], "sep": False, "back": [], "backi": -1, "exc": ""}
        try:
            tok = th.build_pagination_token(i, x)
            parts = tok.split("#")
            row["sep"] = len(parts) == 2 and parts[0] == str(i)
            row["text"] = [impl._B64.index(c) for c in parts[-1]]
            bi, bx = th.parse_pagination_token(tok)
            digits = []
            while bx:
                digits.append(bx % 4)
                bx //= 4
            digits.reverse()
            row["backi"], row["back"] = bi, digits
        except Exception as e:
            row["exc"] = impl.exc_name(e)
        rows.append(row)
    return rows


def token_source(pid, cfg, tier, seed, work, first_id, hook=None):
    """extra source of C09: not traces but rows; their verdicts are carried by one pseudo-trace per failing row."""
    rows = token_rows(seed)
    v = runner.validate_rows(rows, os.path.join(work, "tokenrows"), module="tokenrows")
    out = []
    for r in rows:
        bad = v["verdicts"].get(r["id"], [])
        if bad:
            out.append({"id": first_id + len(out), "backend": "none", "def": {"k": "domain"}, "rules": [], "steps": [],
                        "src": "token-row", "ops": [], "row": r,
                        "rowfail": [c.replace("C09.", pid + ".") for _, c in bad]})
    return out, {"token_rows": len(rows), "token_rows_failing": len(out)}


reg("C09", exc_ops=set(), nontrivial=nt_pages, hook="pagination", obs_fail=False,
    mc=[("core", 4, 5), ("bst", 5, 6), ("pag", None, None), ("token", None, None)], gen_mc=("core", "bst"),
    extra_sources=(tlcgen.tlc_traces, tlcgen.repo_test_traces, token_source),
    weights={"Paginate": 40, "AddPage": 30, "AddPages": 8, "CreateWe": 8, "AddPrefix": 8, "AddLinks": 4,
             "IndexBatchCrawl": 4, "Clear": 3, "DeleteWe": 2, "RemovePrefix": 2, "MovePrefix": 2},
    profile={"raw": 0.0, "long": 0.2, "nlrus": 18, "extend": 0.3, "continue": 0.55, "concentrate": 1,
             "nestsib": 0.6, "sortedsiblings": 0.04}, steps=(24, 32),
    title="Page pagination")
reg("C10", exc_ops=set(), nontrivial=nt_links, hook="paglinks", obs_fail=False,
    extra_sources=(tlcgen.tlc_traces, tlcgen.repo_test_traces, token_source),
    weights={"PagLinks": 40, "AddLinks": 30, "IndexBatchCrawl": 12, "AddPage": 12, "CreateWe": 12, "AddPrefix": 8,
             "Clear": 3, "DeleteWe": 1, "RemovePrefix": 1, "MovePrefix": 2},
    profile={"raw": 0.0, "long": 0.2, "nlrus": 16, "extend": 0.2, "continue": 0.8, "concentrate": 1,
             "homelinks": 0.45, "filteredstory": 0.05}, steps=(24, 32), n=(240, 2000),
    title="Pagelink pagination")
reg("C11", exc_ops={"Reopen", "Clear", "Recreate", "ClearKeep"}, nontrivial=nt_pages, hook="life",
    roles=[("file", ()), ("file", ("Reopen",))], pairname="C11.twin", prefixes=["C11."],
    mc=[("core", 4, 5), ("life", 5, 6)], gen_mc="life", extra_sources=(tlcgen.tlc_traces,),
    weights={"Reopen": 24, "Clear": 10, "Recreate": 3, "AddRule": 8, "CreateWe": 16, "DeleteWe": 6, "AddPage": 26},
    profile={"raw": 0.1, "long": 0.3, "nlrus": 12}, n=(60, 600), steps=(16, 24), title="Close/reopen/clear")
def id_boundary_traces(pid, cfg, tier, seed, work, first_id, hook=None):
    """Histories that issue exactly 256 (and 257) webentity ids - the first width boundary of the id
    field - then close, reopen and create again.  Large states: two traces (four in the thorough tier)."""
    out = []
    rng = random.Random(seed * 17 + 3)
    variants = [(256, "domain", False), (255, "domain", True)] + ([(256, "subdomain", True), (512, "domain", False)]
                                                                   if tier != "quick" else [])
    for j, (n, kind, dele) in enumerate(variants):
        hosts = [b"s:http|h:com|h:d%03d|" % i for i in range(n)]
        rng.shuffle(hosts)
        ops = [{"op": "AddPages", "ls": hosts[c:c + 64], "cr": False} for c in range(0, n, 64)]
        if dele:      # the most recent id belongs to a webentity since deleted
            last = hosts[-1]
            ops.append({"op": "CreateWe", "ps": [b"s:http|h:org|h:gone|"]})
            ops.append({"op": "DeleteWe", "id": n + 1, "ps": [b"s:http|h:org|h:gone|"]})
        ops += [{"op": "Reopen", "def": {"k": kind}, "rules": []},
                {"op": "CreateWe", "ps": [b"s:http|h:org|h:x|"]},
                {"op": "AddPage", "l": b"s:http|h:fr|h:y|p:a|", "cr": True},
                {"op": "Reopen", "def": {"k": kind}, "rules": []},
                {"op": "AddPage", "l": b"s:https|h:fr|h:z|", "cr": False}]
        out.append(runner.run_fixed("file", {"k": kind}, [], ops, hook=hook, tid=first_id + j, src="id-boundary"))
    # one creation request attaching a thousand prefixes and one more: one id shared by all of them
    for n in ((1001,) if tier == "quick" else (1000, 1001)):
        ps = [b"s:http|h:com|h:p%04d|" % i for i in range(n)]
        rng.shuffle(ps)
        ops = [{"op": "AddPage", "l": b"s:http|h:org|h:a|p:x|", "cr": False}, {"op": "CreateWe", "ps": ps},
               {"op": "AddPage", "l": ps[5] + b"p:a|", "cr": True}, {"op": "Reopen", "def": {"k": "domain"}, "rules": []},
               {"op": "CreateWe", "ps": [b"s:http|h:org|h:x|"]}]
        out.append(runner.run_fixed("file", {"k": "domain"}, [], ops, hook=hook, tid=first_id + len(out), src="id-boundary"))
    return out, {"id_boundary_histories": len(out)}


reg("C12", exc_ops=set(), nontrivial=nt_we, mc=[("core", 4, 5), ("we", 4, 5), ("life", 5, 6)], gen_mc="we",
    extra_sources=(tlcgen.tlc_traces, tlcgen.repo_test_traces, id_boundary_traces),
    weights={"CreateWe": 14, "DeleteWe": 8, "Reopen": 18, "AddRule": 12, "Clear": 3, "AddPage": 26},
    profile={"raw": 0.0, "long": 0.1, "persist": 0.6}, n=(200, 2000), title="Webentity ids")
reg("C13", exc_ops=set(), nontrivial=nt_we, hook="hierarchy", obs_fail=False, mc=[("core", 4, 5), ("we", 4, 5)],
    gen_mc="we",
    weights={"CreateWe": 14, "AddPrefix": 10, "MovePrefix": 8, "AddRule": 8, "AddPage": 25, "RemovePrefix": 4},
    profile={"raw": 0.0, "long": 0.1, "nlrus": 14, "extend": 0.25, "firstwrite": 0.25}, title="Hierarchy / pruning flag")
def torn_source(pid, cfg, tier, seed, work, first_id, hook=None):
    """extra source of C14: the index states that only a crash reaches (every cut of real write logs, reopened by
    the real code as in C18) are reachable states too; the rows are judged by CrashRows (clause C14.torn)."""
    import crash
    ti = 0 if tier == "quick" else 1
    nh, steps = ((10, 8), (50, 10))[ti]
    prof = dict(BASE_PROFILE)
    prof.update({"nlrus": 8, "long": 0.8, "raw": 0.1, "lens": [75, 148, 149, 222, 222, 223, 296, 297],
                 "weights": {"Reopen": 0, "Clear": 4, "Paginate": 0, "PagLinks": 0, "AddLinks": 20,
                             "IndexBatchCrawl": 14, "AddRule": 8, "RemoveRule": 6, "CreateWe": 8}})
    hists, rows, extra_h, next_id = [], [], [], [0]
    for h in range(nh):
        d = gen.Driver(seed * 1000003 + h * 15485863 + 211, prof, "file")
        hist = crash.record_history(d, steps, file_events=True)
        hist["ref_base"] = len(extra_h)
        extra_h += hist["after"]
        hists.append(hist)
        n0 = len(rows)
        rows += crash.enumerate_cuts(hist, h, next_id, files_every=10 ** 9, byte_cuts=False, ref_base=hist["ref_base"])
        for r in rows[n0:]:
            r["_h"] = h
    out = []
    for c in range(0, len(rows), 1200):
        part = rows[c:c + 1200]
        owner = dict((r["id"], r.pop("_h")) for r in part)
        v = validate_crash_rows(part, extra_h, os.path.join(work, "torn_%d" % c))
        for r in part:
            bad = [x for _, x in v["verdicts"][r["id"]] if x.startswith(pid + ".")]
            if bad and len(out) < 40:
                h = hists[owner[r["id"]]]
                out.append({"id": first_id + len(out), "backend": "file", "def": h["def"], "rules": h["rules"], "steps": [],
                            "src": "torn-state", "ops": h["ops"], "rowfail": bad,
                            "crash": {"kind": "crash", "cut": r["k"], "partial_bytes": 0, "missing_link_store": r["missing"],
                                      "outcome": r["outcome"], "qfail": r["qfail"], "changed": r["changed"],
                                      "writes": [[w[0], w[1], w[2], w[3]] for w in h["writes"]], "ram_at": h["ram_at"]}})
    return out, {"torn_states_probed": len(rows), "torn_states_opened": sum(1 for r in rows if r["outcome"] == "opened"),
                 "torn_states_failing": len(out)}


reg("C14", exc_ops=set(), nontrivial=nt_pages, hook="readonly", obs_fail=False,
    gen_mc="core", extra_sources=(tlcgen.tlc_traces, tlcgen.repo_test_traces, torn_source),
    weights={"Clear": 3, "CreateWe": 8, "AddLinks": 16, "Reopen": 10, "AddRule": 14},
    profile={"raw": 0.1, "long": 0.3, "nlrus": 10, "reopen_drop": 0.7}, n=(50, 400), steps=(10, 16),
    title="Queries never modify")
reg("C15", exc_ops=ALL_OPS, nontrivial=nt_long, hook="pair",
    roles=[("file", ()), ("memory", ())], pairname="C15.pair", prefixes=["C15."], prehook=hooks.prehook_mmap,
    weights={"Reopen": 0, "Clear": 3, "Recreate": 3, "AddRule": 6},
    profile={"raw": 0.3, "long": 0.7, "nlrus": 10}, n=(40, 500), steps=(12, 20), title="Memory == file")
reg("C19", exc_ops=set(), nontrivial=nt_long, hook="metrics", prefixes=["C19.", "C02.inv.refonce", "C02.inv.blockshape"],
    profile={"long": 0.9, "raw": 0.3, "twins": 0.9}, n=(160, 1500), title="Storage accounting")


# ---------------------------------------------------------------------------------------
# Generic check
# ---------------------------------------------------------------------------------------
def trace_hash(tr):
    return hashlib.sha1(repr((tr["backend"], tr["def"], tr["rules"], tr["ops"])).encode()).hexdigest()


def make_traces(pid, cfg, tier, seed, work):
    ti = 0 if tier == "quick" else 1
    n, steps = cfg["n"][ti], cfg["steps"][ti]
    prof = dict(gen_profile(cfg))
    hook = getattr(hooks, "hook_" + cfg["hook"]) if cfg["hook"] else None
    traces = []
    dropped = 0
    for i in range(n):
        be = cfg["backends"][i % len(cfg["backends"])]
        d = gen.Driver(seed * 1000003 + i * 7919 + 17, prof, be)
        tr = runner.run_online(d, be, steps, hook=hook, tid=i, src="random")
        dropped += d.dropped_family
        traces.append(tr)
        if impl.TIMEOUTS[0] >= 3:
            break      # the code under test hangs: enough material for a verdict
    return traces, {"random_histories": n, "steps_per_history": steps, "family_dropped_draws": dropped}


def make_pairs(pid, cfg, tier, seed, work):
    """Traces come in pairs driven in lockstep (C15: file + memory; C11: file + never-closed twin)."""
    ti = 0 if tier == "quick" else 1
    n, steps = cfg["n"][ti], cfg["steps"][ti]
    prof = dict(gen_profile(cfg))
    hook = getattr(hooks, "hook_" + cfg["hook"]) if cfg["hook"] else None
    traces = []
    for i in range(n):
        d = gen.Driver(seed * 1000003 + i * 7919 + 29, prof, cfg["roles"][0][0])
        traces += runner.run_online_multi(d, cfg["roles"], steps, hook=hook, tid=2 * i, pairname=cfg["pairname"],
                                          prehook=cfg.get("prehook"))
        if impl.TIMEOUTS[0] >= 3:
            break
    return traces, {"paired_histories": n, "steps_per_history": steps, "roles": [r[0] for r in cfg["roles"]]}


def gen_profile(cfg):
    p = dict(BASE_PROFILE)
    p.update(cfg["profile"])
    if cfg["weights"]:
        p["weights"] = cfg["weights"]
    return p


def judge(pid, cfg, traces, val, known):
    """Returns (violations, known_hits, drift, stats).  violations: list of dict."""
    viol, hits, drift = [], [], []
    nclauses = 0
    for tr in traces:
        bad = val["verdicts"].get(tr["id"], [])
        mine = []
        for step, clause in bad:
            if any(clause.startswith(px) for px in cfg["prefixes"]):
                mine.append((step, clause))
            elif clause == "bind.exc":
                op = tr["steps"][step - 1]["op"]
                if op in cfg["exc_ops"]:
                    mine.append((step, pid + ".exc(" + op + ":" + (tr["steps"][step - 1]["exc"] or "none") + ")"))
        if tr.get("abort") and cfg["obs_fail"]:
            a = tr["abort"]
            mine.append((a["step"], "%s.observe(%s after %s)" % (pid, a["err"], a["op"])))
        kn = []
        rest = []
        for step, clause in mine:
            k = match_known(pid, clause, known)
            (kn if k else rest).append((step, clause) if not k else (step, clause, k))
        if rest:
            viol.append({"trace": tr, "clauses": rest})
        for h in kn:
            hits.append({"trace": tr["id"], "step": h[0], "clause": h[1], "finding": h[2]})
        if not mine and any(c.startswith("bind.") for _, c in bad):
            drift.append({"trace": tr["id"], "clauses": sorted(set(c for _, c in bad if c.startswith("bind.")))})
    return viol, hits, drift


def known_text(fid):
    for k in load_known():
        if k["id"] == fid:
            t = k.get("line", "")
            t = t.split(" ", 2)[2] if t.startswith("known:") and t.count(" ") >= 2 else t
            return t[:260]
    return ""


def match_known(pid, clause, known):
    for k in known:
        if k.get("status") == "known" and k["property"] == pid and clause.startswith(k["clause"]):
            return k["id"]
    return None


def sample_of(tr, tab=None, nmax=6):
    ops = []
    for op in tr["ops"][:nmax]:
        ops.append({k: (b2s(v) if not isinstance(v, (bytes, bytearray)) else v.decode("latin-1"))
                    for k, v in op.items()})
    return {"backend": tr["backend"], "default_rule": tr["def"],
            "rules": [[a.decode("latin-1"), r] for a, r in tr["rules"]],
            "first_requests": json.loads(json.dumps(ops, default=lambda x: x.decode("latin-1")
                                                    if isinstance(x, (bytes, bytearray)) else str(x)))}


def run_check(pid, tier, seed, work, t0):
    if pid not in P:
        raise Machinery("no check registered for %s" % pid)
    cfg = P[pid]
    if cfg.get("custom"):
        return cfg["custom"](pid, cfg, tier, seed, work, t0)
    ti = 0 if tier == "quick" else 1
    known = load_known()
    # 1. exhaustive model checking of the design
    mcs = []
    for name, ql, tl in cfg["mc"]:
        if (ql, tl)[ti] == 0:
            continue        # configuration used in the other tier only
        lvl = (ql, tl)[ti]
        if name == "core" and tier == "thorough" and os.environ.get("VERIF_DEEP"):
            lvl = 6          # 1.7 M states, about half an hour
        r = run_mc(name, work, level=lvl, tier=tier, timeout=7200)
        if not r["ok"]:
            raise Machinery("TLC reports an error in configuration %s of the specification itself:\n%s"
                            % (name, r.get("tail", "")))
        mcs.append(r)
    # 2. behaviours replayed into the real code
    maker = cfg.get("maker") or (make_pairs if cfg.get("roles") else make_traces)
    traces, gstats = maker(pid, cfg, tier, seed, work)
    hook_fn = getattr(hooks, "hook_" + cfg["hook"]) if cfg["hook"] else None
    for mk in cfg["extra_sources"]:
        more, st = mk(pid, cfg, tier, seed, work, max([t["id"] for t in traces] + [0]) + 2, hook=hook_fn)
        traces += more
        gstats.update(st)
    # 3. TLC validates the recorded traces (rows judged by their own spec arrive as pseudo-traces
    #    that already carry their verdict)
    rowtr = [t for t in traces if t.get("rowfail")]
    traces = [t for t in traces if not t.get("rowfail")]
    val = validate_chunks(traces, work)
    for t in rowtr:
        val["verdicts"][t["id"]] = [(1, c) for c in t["rowfail"]]
    traces += rowtr
    # 4. verdicts
    viol, hits, drift = judge(pid, cfg, traces, val, known)
    return finish(pid, cfg, tier, seed, t0, mcs, traces, gstats, val, viol, hits, drift)


def validate_chunks(traces, work, chunk=400):
    """Validate in chunks (bounded JSON size per TLC run)."""
    agg = {"verdicts": {}, "consumed": {}, "states": [0, 0], "wall": 0.0, "runs": 0}
    for c in range(0, len(traces), chunk):
        part = traces[c:c + chunk]
        v = runner.validate(part, os.path.join(work, "tv_%d" % c))
        agg["verdicts"].update(v["verdicts"])
        agg["consumed"].update(v["consumed"])
        agg["states"][0] += v["states"][0]
        agg["states"][1] += v["states"][1]
        agg["wall"] += v["wall"]
        agg["runs"] += 1
    return agg


def finish(pid, cfg, tier, seed, t0, mcs, traces, gstats, val, viol, hits, drift, extra_cov=None,
           extra_assumptions=()):
    nviol = 0
    for v in viol:
        tr = v["trace"]
        path = save_replay(pid, tr, [list(c) for c in v["clauses"]],
                           extra=({"kind": "token", "row": tr["row"]} if tr.get("row") else tr.get("crash")))
        step, clause = v["clauses"][0][0], v["clauses"][0][1]
        op = tr["steps"][step - 1]["op"] if 0 < step <= len(tr["steps"]) else "?"
        print("VIOLATION property=%s replay=%s clause=%s step=%d op=%s backend=%s"
              % (pid, path, clause, step, op, tr["backend"]))
        nviol += 1
        if nviol >= 25:
            print("... %d more violating traces not listed" % (len(viol) - nviol))
            break
    seen = set()
    for h in hits:
        if h["finding"] not in seen:
            seen.add(h["finding"])
            n = sum(1 for x in hits if x["finding"] == h["finding"])
            print("KNOWN-FINDING: property=%s %s %s (clause %s, seen in %d traces this run)"
                  % (pid, h["finding"], known_text(h["finding"]), h["clause"], n))
    if drift:
        kinds = sorted(set(c for d in drift for c in d["clauses"]))
        print("MODEL-DRIFT property=%s traces=%d clauses=%s : layout/write order differs from the block "
              "machine while every %s clause holds; exhaustive design-level results do not transfer"
              % (pid, len(drift), ",".join(kinds), pid))
    nt = cfg["nontrivial"] or (lambda tr: len(tr["steps"]) > 3)
    distinct = {}
    for tr in traces:
        if nt(tr):
            distinct[trace_hash(tr)] = 1
    steps_total = sum(len(tr["steps"]) for tr in traces)
    cov = {
        "states": sum(m["distinct"] for m in mcs) if mcs else max(val["states"][1], 1),
        "transitions": sum(m["states"] for m in mcs) if mcs else max(val["states"][0], 1),
        "model_configs": mcs,
        "traces_validated_against_impl": len(traces),
        "trace_steps_validated": steps_total,
        "trace_validation_tlc_states": val["states"][1],
        "evaluations": steps_total,
        "distinct_nontrivial": len(distinct),
        "rule": "histories are drawn online by harness/gen.py over small universes of real byte LRUs "
                "(shared prefixes, BST siblings, scheme/www variations, long and raw-byte stems); "
                "distinct = distinct (backend, config, request sequence); non-trivial per property: "
                + NT_DESC.get(getattr(nt, "__name__", ""), "the history has more than 3 requests"),
        "samples": [sample_of(tr) for tr in traces[:2]],
        "generation": gstats,
        "clause_prefixes": cfg["prefixes"],
        "model_drift_traces": len(drift),
        "known_findings_hit": sorted(seen),
        "exhaustive": False,
    }
    if extra_cov:
        cov.update(extra_cov)
    wall = time.time() - t0
    write_evidence(pid, tier, seed, cov, wall, len(viol), COMMON_ASSUMPTIONS + list(extra_assumptions))
    print("%s %s: model %s; %d traces / %d requests validated by TLC in %.1fs; violations=%d known=%d drift=%d (%.1fs)"
          % (pid, tier, ", ".join("%s L%s %d states" % (m["config"], m["level"], m["distinct"]) for m in mcs),
             len(traces), steps_total, val["wall"], len(viol), len(seen), len(drift), wall))
    return 1 if viol else 0


# ---------------------------------------------------------------------------------------
# C16: cooperative interleaving
# ---------------------------------------------------------------------------------------
def make_coop(pid, cfg, tier, seed, work):
    import coop
    ti = 0 if tier == "quick" else 1
    n = cfg["n"][ti]
    prof = dict(gen_profile(cfg))
    traces = []
    for i in range(n):
        be = cfg["backends"][i % len(cfg["backends"])]
        traces.append(coop.run_coop(seed * 1000003 + i * 7919 + 53, prof, be, i))
        if impl.TIMEOUTS[0] >= 3:
            break
    # the scenario TLC explores exhaustively (MC_coop), on the real code: every interleaving in the
    # thorough tier, a seeded sample of them in the quick tier
    lim = (60, None if os.environ.get("VERIF_COOP_ALL") else 2000)[ti]
    more, st = coop.exhaustive_traces(seed, "file", len(traces) + 1, limit=lim)
    traces += more
    nsteps = sum(1 for t in traces for s in t["steps"] if s["op"] == "CoopNext")
    stats = {"scenarios": len(traces), "generator_steps": nsteps}
    stats.update(st)
    return traces, stats


reg("C16", exc_ops={"CoopNext"}, prefixes=["C16.", "C02.inv"], maker=make_coop,
    mc=[("coop", None, None), ("coopnet", None, None), ("coopnet:pq", None, None), ("coopnet:slow", None, None),
        ("coopnet:slowi", None, None), ("coopnet:top", None, None), ("coopnet:topall", None, None),
        ("coopnet:links", None, None), ("coopnet:linksin", None, None), ("coopnet:pagelinks", None, None),
        ("coopnet:children", None, None), ("coopnet:plf11", None, None)],
    weights={"Clear": 0, "Reopen": 0, "AddPage": 30, "IndexBatchCrawl": 20, "CreateWe": 8},
    profile={"raw": 0.0, "long": 0.3, "nlrus": 9, "extend": 0.3}, n=(260, 1500),
    nontrivial=lambda tr: sum(1 for s in tr["steps"] if s["op"] == "CoopNext") >= 6,
    title="Cooperative interleaving",
    technique="TLA+ step-wise generator model (TraphCoop) with ALL interleavings model-checked (MC_coop) + TLC "
              "validation, step by step, of real generators advanced with next() under random schedules")

# ---------------------------------------------------------------------------------------
# C17: prefix variations (rows, not histories)
# ---------------------------------------------------------------------------------------
def c17_lrus(rng, n):
    """Grammar instances: scheme, optional port, 0-3 contiguous hosts not ending in two www,
    then 0-2 arbitrary stems - concretized with adversarial texts, long and raw-byte stems."""
    schemes = [b"s:http|", b"s:https|", b"s:ftp|", b"s:HTTP|", b"s:xs:http|", b"s:httpx|"]
    ports = [b"", b"", b"t:80|", b"t:8080|"]
    hosts = [b"h:com|", b"h:ex|", b"h:www|", b"h:localhost|", b"h:127.0.0.1|", b"h:a|", b"h:wwww|",
             b"h:ww|", b"h:WWW|", b"h:h:www|", b"h:" + b"x" * 90 + b"|"]
    rest = [b"p:a|", b"p:s:http|", b"p:s:https|", b"p:h:www|", b"q:h:www|", b"p:h:|", b"f:s:http|",
            b"p:xs:http|", b"p:" + b"y" * 80 + b"|", b"p:\x00\xff|", b"q:s:https|h"[:-1] + b"|", b"p:www|"]
    out = []
    # exhaustive small core: every scheme/port/host-list over 3 hosts, with and without one rest stem
    core_h = [b"h:com|", b"h:ex|", b"h:www|"]
    lists = [[]]
    for k in (1, 2, 3):
        lists += [[core_h[i] for i in idx] for idx in __import__("itertools").product(range(3), repeat=k)]
    for s in schemes[:3]:
        for pt in (b"", b"t:80|"):
            for hl in lists:
                if len(hl) >= 2 and hl[-1] == b"h:www|" and hl[-2] == b"h:www|":
                    continue
                for r in (b"", b"p:s:http|", b"q:h:www|"):
                    out.append(s + pt + b"".join(hl) + r)
    while len(out) < n:
        s = rng.choice(schemes)
        pt = rng.choice(ports)
        hl = [rng.choice(hosts) for _ in range(rng.choice([0, 1, 2, 2, 3, 3]))]
        if len(hl) >= 2 and hl[-1] == b"h:www|" and hl[-2] == b"h:www|":
            continue
        rs = [rng.choice(rest) for _ in range(rng.choice([0, 0, 1, 2]))]
        out.append(s + pt + b"".join(hl) + b"".join(rs))
    # host chains far longer than any real name (the grammar says "zero or more contiguous host stems")
    for nh in (126, 127, 128, 129, 130, 140):
        chain = [b"h:l%d|" % k for k in range(nh)]
        out.append(b"s:http|" + b"".join(chain) + b"p:a|")
        out.append(b"s:https|t:80|" + b"".join(chain) + b"h:www|")
    seen, uniq = set(), []
    for l in out:
        if l not in seen:
            seen.add(l)
            uniq.append(l)
    return uniq[:max(n, 0)] if n else uniq


def c17_rows(lrus):
    import traph.helpers as th
    from hooks import guarded
    rows = []
    skipped = 0
    # one long-lived index answers expand_prefix for every member of every class, members of a class
    # being asked one after the other (an answer must not depend on what was expanded before)
    shared = impl.Index("memory", {"k": "never"}, [])
    for i, l in enumerate(lrus):
        vs, e = guarded(lambda: th.lru_variations(l))
        ix = impl.Index("memory", {"k": "never"}, [])
        try:
            ev, e2 = guarded(lambda: ix.t.expand_prefix(l))
        finally:
            ix.destroy()
        row = {"id": i, "l": l, "vars": list(vs or []), "exc": e or e2 or ("" if ev == vs else "expand_prefix differs"),
               "members": [], "created": []}
        for v in (vs or []):
            mv, me = guarded(lambda: th.lru_variations(v))
            row["members"].append({"m": v, "vars": list(mv or []), "exc": me})
        row["shared"] = []
        for v in reversed(vs or []):
            sv, se = guarded(lambda: shared.t.expand_prefix(v))
            row["shared"].append({"m": v, "vars": list(sv or []), "exc": se})
        for v in (vs or [])[:2]:
            tv = impl._as_text(v)
            if isinstance(tv, str):      # the same question asked with a text argument
                sv, se = guarded(lambda: shared.t.expand_prefix(tv))
                row["shared"].append({"m": v, "vars": list(sv or []), "exc": se})
        rule = {"k": "subdomain"}
        if vs and len(vs) <= 4:
            for v in vs:
                page = v + b"p:zz|"
                if impl.real_match_len(rule, page) is None:
                    skipped += 1
                    continue
                ix = impl.Index("memory", rule, [])
                try:
                    if i % 3 == 0:
                        # whatever happened before: here an unrelated site, then an explicit creation that is
                        # REFUSED because one of its prefixes (the unrelated site) is taken - it names a free
                        # variation of this site
                        other = b"s:http|h:org|h:elsewhere|"
                        impl.apply_op(ix, {"op": "AddPage", "l": other + b"p:x|", "cr": False})
                        impl.apply_op(ix, {"op": "CreateWe", "ps": [vs[(vs.index(v) + 1) % len(vs)], other]})
                    res = impl.apply_op(ix, {"op": "AddPage", "l": page, "cr": False})
                    pre = [p for c in res["created"] for p in c["prefixes"]]
                    row["created"].append({"m": v, "prefixes": pre, "exc": res["exc"]})
                finally:
                    ix.destroy()
        rows.append(row)
    shared.destroy()
    return rows, skipped


def check_c17(pid, cfg, tier, seed, work, t0):
    import random
    ti = 0 if tier == "quick" else 1
    mcs = [run_mc("var", work)]
    if not mcs[0]["ok"]:
        raise Machinery("TLC reports an error in MC_var:\n" + mcs[0].get("tail", ""))
    rng = random.Random(seed * 7 + 3)
    lrus = c17_lrus(rng, (900, 8000)[ti])
    rows, skipped = c17_rows(lrus)
    viol = []
    states = [0, 0]
    wall = 0.0
    for c in range(0, len(rows), 1500):
        part = rows[c:c + 1500]
        v = runner.validate_rows(part, os.path.join(work, "rows_%d" % c))
        states[0] += v["states"][0]
        states[1] += v["states"][1]
        wall += v["wall"]
        for row in part:
            bad = [cl for _, cl in v["verdicts"][row["id"]] if cl.startswith("C17.")]
            if bad:
                viol.append((row, bad))
    known = load_known()
    nv = 0
    for row, bad in viol[:25]:
        body = {"property": pid, "kind": "variations", "lru": b2s(row["l"]), "reported": b2s(row["vars"]),
                "exc": row["exc"], "failing": bad}
        h = hashlib.sha1(json.dumps(body, sort_keys=True).encode()).hexdigest()[:12]
        os.makedirs(os.path.join(VERIF, "replays"), exist_ok=True)
        path = os.path.join(VERIF, "replays", "%s-%s.json" % (pid, h))
        json.dump(body, open(path, "w"), indent=1, sort_keys=True)
        print("VIOLATION property=%s replay=%s clause=%s lru=%r" % (pid, path, bad[0], row["l"][:80]))
        nv += 1
    if len(viol) > 25:
        print("... %d more violating rows not listed" % (len(viol) - 25))
    nontriv = sum(1 for r in rows if len(r["vars"]) >= 2)
    cov = {"states": mcs[0]["distinct"], "transitions": mcs[0]["states"], "model_configs": mcs,
           "traces_validated_against_impl": len(rows), "trace_validation_tlc_states": states[1],
           "evaluations": len(rows), "distinct_nontrivial": nontriv,
           "rule": "rows = distinct well-formed LRUs of the C17 grammar (exhaustive over 3 schemes x port x all host lists "
                   "of length <= 3 over {com, ex, www} x 3 tails, plus random concretizations with adversarial / long / "
                   "raw-byte stems); non-trivial = the LRU has at least one variation besides itself",
           "samples": [{"lru": r["l"].decode("latin-1"), "reported": [v.decode("latin-1") for v in r["vars"]]}
                       for r in rows[40:43]],
           "created_class_checks": sum(1 for r in rows if len(r["created"]) >= 2),
           "family_skipped": skipped, "exhaustive": False}
    write_evidence(pid, tier, seed, cov, time.time() - t0, len(viol),
                   COMMON_ASSUMPTIONS + ["C17.sameWe drives add_page under the 'subdomain' default rule on a fresh "
                                         "in-memory index for every member of the class"])
    print("%s %s: model var %d states (grammar exhaustively); %d rows validated by TLC in %.1fs; violations=%d (%.1fs)"
          % (pid, tier, mcs[0]["distinct"], len(rows), wall, len(viol), time.time() - t0))
    return 1 if viol else 0


def replay_c17(body, work):
    l = s2b(body["lru"])
    rows, _ = c17_rows([l])
    v = runner.validate_rows(rows, os.path.join(work, "rows"))
    bad = [cl for _, cl in v["verdicts"][0] if cl.startswith("C17.")]
    for cl in bad:
        print("VIOLATION property=C17 replay=- clause=%s lru=%r" % (cl, l))
    if not bad:
        print("replay: no violation of C17 on the current tree for %r" % l)
    return 1 if bad else 0


reg("C17", custom=check_c17, mc=[("var", None, None)], title="Prefix variations",
    technique="TLA+ token-level definition of variations model-checked over the whole grammar (MC_var) + TLC "
              "validation of rows recorded from lru_variations / expand_prefix / automatic creation")

# ---------------------------------------------------------------------------------------
# C18: torn write histories (fault enumeration on the real code + TLC on the rows)
# ---------------------------------------------------------------------------------------
def check_c18(pid, cfg, tier, seed, work, t0):
    import crash
    ti = 0 if tier == "quick" else 1
    known = load_known()
    mcs = [run_mc("crash", work, level=(4, 5)[ti]), run_mc("crash:clear", work, level=(4, 5)[ti])]
    for m in mcs:
        if not m["ok"]:
            raise Machinery("TLC reports an error in MC_%s:\n" % m["config"] + m.get("tail", ""))
    # vacuity guard: the same model with the two re-creations of clear() swapped must violate CrashSafe
    bug = run_mc("crash:clearbug", work, level=4)
    if bug["ok"] or bug.get("violated") != "CrashSafe":
        raise Machinery("MC_crash_clearbug (link store emptied before the trie) does not violate CrashSafe")
    nh, steps = ((28, 9), (120, 11))[ti]
    prof = dict(BASE_PROFILE)
    # multi-block stems only, exact multiples of the block payload prominent: the shapes torn writes depend on
    prof.update({"nlrus": 8, "long": 0.8, "raw": 0.1, "lens": [75, 148, 149, 222, 222, 223, 296, 297],
                 "weights": {"Reopen": 0, "Clear": 0, "Paginate": 0, "PagLinks": 0, "AddLinks": 20,
                             "IndexBatchCrawl": 14, "AddRule": 8, "RemoveRule": 6, "CreateWe": 8}})
    hists, rows = [], []
    next_id = [0]
    for h in range(nh):
        d = gen.Driver(seed * 1000003 + h * 7919 + 41, prof, "file")
        hist = crash.record_history(d, steps)
        hists.append(hist)
        rows += crash.enumerate_cuts(hist, h, next_id, files_every=(9, 5)[ti])
        if impl.TIMEOUTS[0] >= 3:
            break
    extra_h = [{"pages": [l for l, _ in h["final"]["pages"]],
                "links": [{"s": s, "t": t, "w": w} for s, t, w in h["final"]["outs"]]} for h in hists]
    nh0 = len(hists)
    # histories with clear(): the two files are re-created one after the other (file events of the
    # log), and a cut is compared with the history completed up to the request it falls in
    nclear = (10, 40)[ti]
    cprof = dict(prof)
    cprof["weights"] = dict(prof["weights"], Clear=22, Recreate=8)   # Recreate: the constructor with overwrite=True
    cprof["clearkeep"] = 0.4
    clear_cuts = 0
    for h in range(nclear):
        d = gen.Driver(seed * 1000003 + h * 104729 + 977, cprof, "file")
        hist = crash.record_history(d, steps, file_events=True)
        hist["ref_base"] = len(extra_h)
        extra_h += hist["after"]
        hists.append(hist)
        n0 = len(rows)
        rows += crash.enumerate_cuts(hist, len(hists) - 1, next_id, files_every=(9, 5)[ti], ref_base=hist["ref_base"])
        clear_cuts += sum(1 for r in rows[n0:] if hist["ops"] and 0 < r["step"] <= len(hist["ops"])
                          and hist["ops"][r["step"] - 1]["op"] in ("Clear", "ClearKeep", "Recreate"))
        if impl.TIMEOUTS[0] >= 3:
            break
    # validate in chunks; histories are shared through batch.extra.hists
    viol, drift = [], []
    states = [0, 0]
    wall = 0.0
    for c in range(0, len(rows), 1200):
        part = rows[c:c + 1200]
        v = validate_crash_rows(part, extra_h, os.path.join(work, "cr_%d" % c))
        states[0] += v["states"][0]
        states[1] += v["states"][1]
        wall += v["wall"]
        for row in part:
            cl = [x for _, x in v["verdicts"][row["id"]]]
            mine = [x for x in cl if x.startswith("C18.")]
            if mine:
                viol.append((row, mine))
            elif any(x.startswith("bind.") for x in cl):
                drift.append((row["id"], cl))
    shown = 0
    sig = set()
    kn_hits = {}
    real = []
    for row, mine in viol:
        k = None
        for kf in known:
            if kf.get("status") == "known" and kf["property"] == pid and all(m.startswith(kf["clause"]) for m in mine) \
                    and kf.get("qfail_all") and row["qfail"] and all(any(x in qf for x in kf["qfail_all"]) for qf in row["qfail"]):
                k = kf["id"]
        if k:
            kn_hits[k] = kn_hits.get(k, 0) + 1
        else:
            real.append((row, mine))
    for row, mine in real:
        key = (mine[0], row["outcome"], tuple(row["qfail"])[:2])
        if key in sig and shown >= 5:
            continue
        sig.add(key)
        h = [x for x in hists if x.get("ref_base", -1) <= row["hist"] - 1][-1] if row["hist"] > nh0 else hists[row["hist"] - 1]
        body = {"property": pid, "kind": "crash", "def": h["def"], "rules": b2s(h["rules"]), "ops": b2s(h["ops"]),
                "cut": row["k"], "partial_bytes": row["pbytes"], "missing_link_store": row["missing"],
                "outcome": row["outcome"], "qfail": row["qfail"], "failing": mine,
                "writes": [[w[0], w[1], w[2], b2s(w[3])] for w in h["writes"]], "ram_at": b2s(h["ram_at"])}
        hh = hashlib.sha1(json.dumps(body, sort_keys=True).encode()).hexdigest()[:12]
        os.makedirs(os.path.join(VERIF, "replays"), exist_ok=True)
        path = os.path.join(VERIF, "replays", "%s-%s.json" % (pid, hh))
        json.dump(body, open(path, "w"), indent=1, sort_keys=True)
        print("VIOLATION property=%s replay=%s clause=%s cut=%d/%d outcome=%s qfail=%s"
              % (pid, path, mine[0], row["k"], len(h["writes"]), row["outcome"], ",".join(row["qfail"])[:120]))
        shown += 1
        if shown >= 25:
            break
    if len(real) > shown:
        print("... %d more violating cuts not listed" % (len(real) - shown))
    for k, n in kn_hits.items():
        print("KNOWN-FINDING: property=%s %s (seen at %d cuts this run)" % (pid, k, n))
    if drift and os.environ.get("VERIF_DEBUG"):
        byid = dict((r["id"], r) for r in rows)
        for rid, cl in drift[:10]:
            r = byid[rid]
            print("DRIFT-ROW", cl, dict((k, r[k]) for k in ("k", "step", "partial", "missing", "outcome", "hist", "hasFiles")))
    if drift:
        print("MODEL-DRIFT property=%s cuts=%d : refusal predicate or torn-file invariant differs from the model "
              "while every C18 clause holds" % (pid, len(drift)))
    opened = sum(1 for r in rows if r["outcome"] == "opened")
    refused = sum(1 for r in rows if r["outcome"] == "refused")
    cov = {"states": sum(m["distinct"] for m in mcs), "transitions": sum(m["states"] for m in mcs), "model_configs": mcs,
           "mutant_model_rejected": "MC_crash_clearbug (ClearOrder = XL, XT) violates CrashSafe",
           "traces_validated_against_impl": len(hists), "cuts_enumerated": len(rows),
           "cuts_opened": opened, "cuts_refused": refused,
           "cuts_with_decoded_files_checked_by_TLC": sum(1 for r in rows if r["hasFiles"]),
           "histories_with_clear": nclear, "cuts_inside_a_clear_request": clear_cuts,
           "trace_validation_tlc_states": states[1],
           "evaluations": len(rows), "distinct_nontrivial": opened,
           "rule": "every cut of the program-ordered raw write log of each recorded history: block granularity for all "
                   "writes, byte offsets 1/mid/size-1 inside appended blocks, plus 'link store not created yet'; "
                   "in the histories with clear() the re-creation of each file is an event of the log too; "
                   "non-trivial = the real Traph reopened the cut (was not refused) and was interrogated",
           "samples": [{"requests": [o["op"] for o in hists[0]["ops"]], "writes": len(hists[0]["writes"]),
                        "cut": rows[len(rows) // 3]["k"], "outcome": rows[len(rows) // 3]["outcome"]}],
           "model_drift_cuts": len(drift), "known_findings_hit": sorted(kn_hits), "exhaustive": False}
    write_evidence(pid, tier, seed, cov, time.time() - t0, len(real),
                   COMMON_ASSUMPTIONS + ["in-place block rewrites are atomic; the two files are cut at the same "
                                         "program point; rules in force when the request started are re-supplied on reopen"],
                   level="fault_enumeration" if False else "model_checking")
    print("%s %s: model crash L%s %d states (every cut of every request, clear() included); %d histories, %d cuts reopened by the real code "
          "(%d opened, %d refused), rows validated by TLC in %.1fs; violations=%d known=%d drift=%d (%.1fs)"
          % (pid, tier, mcs[0]["level"], sum(m["distinct"] for m in mcs), len(hists), len(rows), opened, refused, wall,
             len(real), len(kn_hits), len(drift), time.time() - t0))
    return 1 if real else 0


def validate_crash_rows(rows, hists, workdir):
    from abstraction import StemTable
    tab = StemTable()
    tab.note(rows)
    tab.note(hists)
    stemtab = tab.finalize()
    batch = {"stems": stemtab, "www": tab.rank[b"h:www|"], "traces": [],
             "extra": {"rows": tab.conv(rows), "hists": tab.conv(hists)}}
    os.makedirs(workdir, exist_ok=True)
    bpath = os.path.join(workdir, "batch.json")
    json.dump(batch, open(bpath, "w"))
    src = os.path.join(runner.SPEC, "crashrows")
    for name in os.listdir(src):
        open(os.path.join(workdir, name), "w").write(open(os.path.join(src, name)).read())
    rc, out, wall = runner.tlc(workdir, "MC_crashrows", cfg="MC_crashrows.cfg", env={"VERIF_BATCH": bpath},
                               workers=os.environ.get("VERIF_TLC_WORKERS", "8"))
    if "Model checking completed. No error has been found." not in out:
        open(os.path.join(workdir, "tlc.out"), "w").write(out)
        raise Machinery("TLC did not complete crash-row validation (rc=%s)\n%s" % (rc, out[-3000:]))
    verdicts = {}
    for v in runner.extract_verdicts(out):
        verdicts[v[1]] = [(b[0], b[1]) for b in v[3]]
    missing = [r["id"] for r in rows if r["id"] not in verdicts]
    if missing:
        raise Machinery("no verdict for crash rows %s" % missing[:10])
    m = runner.STATS_RE.search(out)
    return {"verdicts": verdicts, "states": (int(m.group(1)), int(m.group(2))) if m else (0, 0), "wall": wall}


def replay_c18(body, work):
    import crash
    import tempfile
    import shutil
    writes = [(w[0], w[1], w[2], s2b(w[3]), 0) for w in body["writes"]]
    raw_t, raw_l = crash.materialize(writes, body["cut"], body["partial_bytes"] or None)
    folder = tempfile.mkdtemp(prefix="vt_c18_")
    try:
        open(os.path.join(folder, "lru_trie.dat"), "wb").write(raw_t)
        if not body["missing_link_store"]:
            open(os.path.join(folder, "link_store.dat"), "wb").write(raw_l)
        ram = s2b(body["ram_at"])
        default, rules = ram[-1]
        res = crash.probe(folder, default, [tuple(x) for x in rules])
    finally:
        shutil.rmtree(folder, ignore_errors=True)
    if body.get("property") == "C14":
        print("replay C14 (torn state) cut=%d: outcome=%s bytes changed by the queries=%d" % (body["cut"], res["outcome"], res["changed"]))
        if res["changed"]:
            print("VIOLATION property=C14 replay=- clause=C14.torn")
        return 1 if res["changed"] else 0
    bad = res["outcome"] not in ("refused", "opened") or (res["outcome"] == "opened" and res["qfail"])
    print("replay C18 cut=%d: outcome=%s qfail=%s" % (body["cut"], res["outcome"], res["qfail"]))
    if bad:
        print("VIOLATION property=C18 replay=- clause=%s" % ("C18.queries" if res["outcome"] == "opened" else "C18.refuse_or_open"))
    return 1 if bad else 0


reg("C18", custom=check_c18, mc=[("crash", 4, 5)], title="Torn write history", level="model_checking",
    technique="TLA+ write-list model: TLC checks every cut of every request of all small histories (MC_crash; "
              "MC_crash_clear with the file re-creations of clear() as events; mutant MC_crash_clearbug must fail); fault "
              "enumeration replays every cut of real write logs, file re-creations included, into the real code, rows "
              "judged by TLC (CrashRows)")

# ---------------------------------------------------------------------------------------
# Replay
# ---------------------------------------------------------------------------------------
def shrink(pid, path, work, budget=60):
    """Delta-debug a violating history: drop requests while the same clause still fails."""
    body = json.load(open(path))
    if body.get("kind") or any(o.get("op") in ("CoopBegin", "Paginate", "PagLinks") for o in body["ops"]):
        print("shrink: only plain request histories are shrunk")
        return 2
    cfg = P[body["property"]]
    hook = getattr(hooks, "hook_" + cfg["hook"]) if cfg["hook"] else None
    rules = [tuple(x) for x in s2b(body["rules"])]
    want = set(c[1].split("(")[0] for c in body["failing"])

    def fails(ops, n):
        tr = runner.run_fixed(body["backend"], body["def"], rules, ops, hook=hook, tid=0, src="shrink")
        val = runner.validate([tr], os.path.join(work, "sh%d" % n))
        viol, _, _ = judge(body["property"], cfg, [tr], val, load_known())
        got = set(c[1].split("(")[0] for v in viol for c in v["clauses"])
        return bool(got & want)
    ops = s2b(body["ops"])
    for op in ops:
        for k in ("pairs", "data", "rules"):
            if k in op:
                op[k] = [tuple(x) for x in op[k]]
    n = 0
    last = max(c[0] for c in body["failing"]) - 1      # steps are 1-based with Init first
    ops = ops[:last]
    if not fails(ops, n):
        print("shrink: the violation does not reproduce on the current tree")
        return 0
    chunk = max(1, len(ops) // 2)
    while chunk >= 1 and n < budget:
        i = 0
        progress = False
        while i < len(ops) and n < budget:
            cand = ops[:i] + ops[i + chunk:]
            n += 1
            if cand and fails(cand, n):
                ops = cand
                progress = True
            else:
                i += chunk
        if not progress:
            chunk //= 2
    body["ops"] = b2s(ops)
    body["shrunk_from"] = os.path.basename(path)
    out = path.replace(".json", ".min.json")
    json.dump(body, open(out, "w"), indent=1, sort_keys=True)
    print("shrink: %d requests -> %d requests after %d attempts: %s" % (last, len(ops), n, out))
    for op in ops:
        print("   ", {k: (v if not isinstance(v, (bytes, list, tuple)) else repr(v)[:90]) for k, v in op.items()})
    return 1


def replay(pid, path, work):
    body = json.load(open(path))
    if body.get("kind") == "variations":
        return replay_c17(body, work)
    if body.get("kind") == "crash":
        return replay_c18(body, work)
    if body.get("kind") == "token":
        want = (body["row"]["i"], body["row"]["path"])
        rows = [r for r in token_rows(0, only=want)]
        v = runner.validate_rows(rows, os.path.join(work, "tokenrows"), module="tokenrows")
        bad = [c for _, c in v["verdicts"][rows[0]["id"]]]
        for c in bad:
            print("VIOLATION property=%s replay=%s clause=%s row=%s" % (pid, path, c.replace("C09.", pid + "."), want))
        if not bad:
            print("replay: no violation of %s on the current tree for token row %s" % (pid, want))
        return 1 if bad else 0
    cfg = P[body["property"]]
    hook = getattr(hooks, "hook_" + cfg["hook"]) if cfg["hook"] else None
    rules = [tuple(x) for x in s2b(body["rules"])]
    ops = s2b(body["ops"])
    for op in ops:
        for k in ("pairs", "data", "rules"):
            if k in op:
                op[k] = [tuple(x) for x in op[k]]
    if any(o["op"] == "CoopBegin" for o in ops):
        import coop
        for o in ops:
            if o["op"] == "CoopBegin":
                for g in o["gens"]:
                    if g["kind"] == "crawl":
                        g["data"] = [tuple(x) for x in g["data"]]
        tr = coop.replay_coop(body["backend"], body["def"], rules, ops)
    elif cfg.get("roles"):
        # paired properties (C15: file + memory, C11: twin): the history is replayed on every role in lockstep
        class Fixed(object):
            default, k = body["def"], 0

            def draw(self, obs):
                self.k += 1
                return ops[self.k - 1]
        fx = Fixed()
        fx.rules = rules
        h2 = (lambda ix, d, i, op, res: hook(ix, None, i, op, res)) if hook else None
        trs = runner.run_online_multi(fx, cfg["roles"], len(ops), hook=h2, tid=0, src="replay",
                                      pairname=cfg["pairname"], prehook=cfg.get("prehook"))
        tr = trs[0]
    else:
        tr = runner.run_fixed(body["backend"], body["def"], rules, ops, hook=hook, tid=0, src="replay")
    trs = trs if cfg.get("roles") and not any(o["op"] == "CoopBegin" for o in ops) else [tr]
    val = runner.validate(trs, os.path.join(work, "tv"))
    viol, hits, drift = judge(body["property"], cfg, trs, val, load_known())
    for v in viol:
        for step, clause in v["clauses"]:
            op = tr["steps"][step - 1]["op"] if 0 < step <= len(tr["steps"]) else "?"
            print("VIOLATION property=%s replay=%s clause=%s step=%d op=%s" % (body["property"], path, clause, step, op))
    for h in hits:
        print("KNOWN-FINDING: property=%s %s %s (clause %s at step %d of this replay)"
              % (body["property"], h["finding"], known_text(h["finding"]), h["clause"], h["step"]))
    if not viol:
        print("replay: no violation of %s on the current tree (all verdicts: %s)" % (body["property"], val["verdicts"]))
    return 1 if viol else 0
reg("C20", exc_ops=set(), nontrivial=nt_links, hook="toplinked", obs_fail=False,
    weights={"AddLinks": 30, "IndexBatchCrawl": 16, "CreateWe": 8, "AddPrefix": 5, "Clear": 8},
    profile={"raw": 0.0, "long": 0.1, "nlrus": 10}, n=(130, 1000), steps=(16, 20), title="Most-linked pages")
NOT_YET = {}
