#!/venv/bin/python
# Self-tests of the machinery (not registered as checks):
#  1. spec mutants: with one refresh() switched off in TraphCoop (Bug constant) TLC must
#     FIND a violation in the schedule space -> the invariants are not vacuous;
#  2. binding: a recorded trace of the real code is accepted; the same trace with one logged
#     field corrupted / one touched block dropped / one report falsified must be REJECTED
#     with a clause of the expected family -> the trace spec really constrains the code.
import copy
import json
import os
import shutil
import sys
import tempfile

HERE = os.path.dirname(os.path.abspath(__file__))
sys.path.insert(0, HERE)
import runner   # noqa: E402
import gen      # noqa: E402
import hooks    # noqa: E402
from checklib import VERIF  # noqa: E402


def spec_mutants(work):
    ok = True
    src = os.path.join(VERIF, "spec", "mc", "coop")
    for cfg, expect in (("MC_coop2.cfg", False), ("MC_coop_bug.cfg", True), ("MC_coop_bug2.cfg", True)):
        wd = os.path.join(work, cfg)
        shutil.copytree(src, wd)
        rc, out, wall = runner.tlc(wd, "MC_coop", cfg=cfg, workers="8")
        violated = "is violated" in out
        print("spec mutant %-18s violation found=%s expected=%s" % (cfg, violated, expect))
        ok = ok and (violated == expect)
    # the known finding F11 is a property of the design: TLC finds it in the model
    src = os.path.join(VERIF, "spec", "mc", "coopnet")
    for cfg, expect in (("MC_coopnet.cfg", False), ("MC_coopnet_f11.cfg", True),
                        ("MC_coopnet_pq.cfg", False), ("MC_coopnet_pf11.cfg", True),
                        ("MC_coopnet_slow.cfg", False), ("MC_coopnet_sf11.cfg", True),
                        ("MC_coopnet_top.cfg", False), ("MC_coopnet_links.cfg", False),
                        ("MC_coopnet_lf11.cfg", True)):
        wd = os.path.join(work, cfg)
        shutil.copytree(src, wd)
        rc, out, wall = runner.tlc(wd, "MC_coopnet", cfg=cfg, workers="8")
        violated = "Invariant NetBounds is violated" in out
        print("design-level F11 %-20s NetBounds violated=%s expected=%s" % (cfg, violated, expect))
        ok = ok and (violated == expect)
    # F12 (an item missed although it qualified throughout, its witnesses replacing one another) at design level
    wd = os.path.join(work, "MC_coopnet_f12.cfg")
    shutil.copytree(src, wd)
    rc, out, wall = runner.tlc(wd, "MC_coopnet", cfg="MC_coopnet_f12.cfg", workers="4")
    violated = "Invariant NoMissing is violated" in out
    print("design-level F12 MC_coopnet_f12.cfg      NoMissing violated=%s expected=True" % violated)
    ok = ok and violated
    # pagination sessions interleaved with insertions: a session that feeds back a wrong token must be caught
    src = os.path.join(VERIF, "spec", "mc", "pag")
    for cfg, inv in (("MC_pag_stale.cfg", "NoRepeat"), ("MC_pag_ahead.cfg", "NothingSkipped")):
        wd = os.path.join(work, cfg)
        shutil.copytree(src, wd)
        rc, out, wall = runner.tlc(wd, "MC_pag", cfg=cfg, workers="8")
        violated = ("Invariant %s is violated" % inv) in out
        print("session mutant %-18s %s violated=%s expected=True" % (cfg, inv, violated))
        ok = ok and violated
    return ok


def corruptions():
    def flip_page_flag(tr):
        for s in tr["steps"]:
            for e in s["d"]:
                if e["f"] == "T" and not e["b"]["t"]:
                    e["b"]["pg"] = not e["b"]["pg"]
                    return "a page flag flipped in one logged block", ("bind.trie", "bind.obs", "C02")
    def drop_block(tr):
        for s in tr["steps"][1:]:
            if len(s["d"]) >= 2:
                del s["d"][0]
                return "one touched block dropped from the log", ("bind.trie", "C02", "bind.links")
    def lie_report(tr):
        for s in tr["steps"][1:]:
            if s["op"] in ("AddPage", "AddLinks", "IndexBatchCrawl") and s["exc"] == "":
                s["pages"] += 1
                return "report claims one more created page", ("C01.report", "bind.report")
    def lose_page(tr):
        for s in tr["steps"][1:]:
            if len(s["obs"]["pages"]) >= 2:
                del s["obs"]["pages"][0]
                return "one page removed from a logged enumeration", ("C01.pages", "bind.obs")
    def reorder_writes(tr):
        for s in tr["steps"][1:]:
            if len(s["w"]) >= 3 and s["w"][0] != s["w"][-1]:
                s["w"][0], s["w"][-1] = s["w"][-1], s["w"][0]
                return "write order permuted", ("bind.wlog",)
    def wrong_id(tr):
        for s in tr["steps"][1:]:
            if s["created"]:
                s["created"][0]["id"] += 1
                return "created webentity id falsified", ("C06.created", "C12", "bind.report")
    return [flip_page_flag, drop_block, lie_report, lose_page, reorder_writes, wrong_id]


def binding(work):
    prof = {"nlrus": 10, "long": 0.4, "raw": 0.1}
    traces = [runner.run_online(gen.Driver(900 + i, prof, "file"), "file", 14, tid=i) for i in range(6)]
    base = runner.validate(traces, os.path.join(work, "base"))
    clean = all(not v for v in base["verdicts"].values())
    print("binding: %d recorded traces accepted with no failing clause: %s" % (len(traces), clean))
    ok = clean
    for fn in corruptions():
        done = False
        for tr in traces:
            t2 = copy.deepcopy(tr)
            r = fn(t2)
            if not r:
                continue
            what, families = r
            v = runner.validate([t2], os.path.join(work, fn.__name__))
            bad = [c for _, c in v["verdicts"][t2["id"]]]
            hit = [c for c in bad if any(c.startswith(f) for f in families)]
            print("binding: %-45s rejected=%s clauses=%s" % (what, bool(hit), sorted(set(bad))[:6]))
            ok = ok and bool(hit)
            done = True
            break
        if not done:
            print("binding: corruption %s not applicable to the recorded traces" % fn.__name__)
            ok = False
    return ok


def rows_binding(work):
    """Row specs (C17, C18): a falsified row must be rejected with the expected clause."""
    import random
    import props
    import crash
    ok = True
    # C17
    rows, _ = props.c17_rows([b"s:http|h:com|h:ex|p:a|", b"s:https|t:80|h:com|h:ex|h:www|"])
    v = runner.validate_rows(rows, os.path.join(work, "v17a"))
    clean = all(not v["verdicts"][r["id"]] for r in rows)
    bad = copy.deepcopy(rows)
    bad[0]["vars"] = bad[0]["vars"][:-1]                     # one variation dropped
    bad[1]["vars"] = [bad[1]["vars"][1], bad[1]["vars"][0]] + bad[1]["vars"][2:]   # not itself first
    v2 = runner.validate_rows(bad, os.path.join(work, "v17b"))
    c0 = [c for _, c in v2["verdicts"][0]]
    c1 = [c for _, c in v2["verdicts"][1]]
    print("rows C17: clean accepted=%s; dropped variation -> %s; reordered -> %s" % (clean, c0[:3], c1[:3]))
    ok = ok and clean and "C17.equal" in c0 and "C17.head" in c1
    # C18
    d = gen.Driver(4242, {"nlrus": 7, "long": 0.8, "weights": {"Reopen": 0, "Clear": 0}}, "file")
    hist = crash.record_history(d, 5)
    rws = crash.enumerate_cuts(hist, 0, [0], files_every=4)
    hists = [{"pages": [l for l, _ in hist["final"]["pages"]],
              "links": [{"s": s, "t": t, "w": w} for s, t, w in hist["final"]["outs"]]}]
    v = props.validate_crash_rows(rws, hists, os.path.join(work, "v18a"))
    clean = all(not [c for _, c in v["verdicts"][r["id"]] if c.startswith("C18.")] for r in rws)
    bad = copy.deepcopy(rws)
    opened = [r for r in bad if r["outcome"] == "opened"]
    opened[-1]["pages"] = list(opened[-1]["pages"]) + [b"s:http|h:never|h:submitted|"]
    opened[0]["qfail"] = ["count_pages:TypeError"]
    v2 = props.validate_crash_rows(bad, hists, os.path.join(work, "v18b"))
    ca = [c for _, c in v2["verdicts"][opened[-1]["id"]]]
    cb = [c for _, c in v2["verdicts"][opened[0]["id"]]]
    print("rows C18: %d cuts, clean accepted=%s; invented page -> %s; failing query -> %s" % (len(rws), clean, ca[:2], cb[:2]))
    ok = ok and clean and "C18.subset.pages" in ca and "C18.queries" in cb
    return ok


def main():
    work = tempfile.mkdtemp(prefix="verif_selftest_")
    try:
        a = spec_mutants(work)
        b = binding(work) and rows_binding(work)
    finally:
        shutil.rmtree(work, ignore_errors=True)
    print("SELFTEST", "OK" if a and b else "FAILED")
    return 0 if a and b else 1


if __name__ == "__main__":
    sys.exit(main())
