#!/bin/sh
# usage: verify_seed.sh <worktree> ; confirms: tests pass with patch, demo fails with patch, demo passes without
d=$1
cd $d || exit 2
git checkout -q -- traph
git apply --check _seed/patch.diff || { echo "PATCH DOES NOT APPLY"; exit 2; }
/venv/bin/python _seed/demo.py >/dev/null 2>&1; p0=$?
git apply _seed/patch.diff
/venv/bin/python -m pytest -q -p no:cacheprovider 2>&1 | tail -1 > /tmp/vs_tests.$$; 
/venv/bin/python _seed/demo.py >/dev/null 2>&1; p1=$?
git checkout -q -- traph
echo "pristine_demo_exit=$p0 patched_demo_exit=$p1 patched_tests=$(cat /tmp/vs_tests.$$)"
rm -f /tmp/vs_tests.$$
