# Property-specific read-only queries logged after each request (the argument grids the
# properties quantify over).  Every hook returns a dict of concrete values (LRUs as bytes).
import warnings

import impl
from impl import exc_name, stems_of


def pool_of(ix, driver):
    """LRUs to probe with: the universe, everything mentioned so far, their stem-prefixes,
    plus LRUs absent from the index (extensions and sibling replacements)."""
    base = set(getattr(ix, "pool", set()))
    if driver is not None:
        base |= set(driver.u.lrus)
    out = set()
    for l in base:
        st = stems_of(l)
        for n in range(1, len(st) + 1):
            out.add(b"".join(st[:n]))
    extra = set()
    stems = sorted(set(s for l in out for s in stems_of(l)))
    for k, l in enumerate(sorted(out)):
        if k % 3 == 0 and stems:
            extra.add(l + stems[k % len(stems)])                      # extension, mostly absent
        st = stems_of(l)
        if k % 4 == 1 and len(st) > 1:
            extra.add(b"".join(st[:-1]) + stems[(k * 7) % len(stems)])  # sibling replacement
    extra.add(b"s:zz|")
    return sorted(out | extra)


def note_pool(ix, op):
    if not hasattr(ix, "pool"):
        ix.pool = set()
    if op is None:
        return

    def walk(x):
        if isinstance(x, (bytes, bytearray)):
            ix.pool.add(bytes(x))
        elif isinstance(x, dict):
            for v in x.values():
                walk(v)
        elif isinstance(x, (list, tuple)):
            for v in x:
                walk(v)
    walk(op)


def guarded(fn):
    """Run a query; returns (value, exc-name)."""
    try:
        with warnings.catch_warnings():
            warnings.simplefilter("ignore")
            return fn(), ""
    except Exception as e:
        return None, exc_name(e)


def wrap(body):
    def hook(ix, driver, i, op, res):
        note_pool(ix, op)
        del impl.WRITE_LOG[:]
        q = body(ix, driver, i, op, res)
        q["wrote"] = len(impl.WRITE_LOG)
        del impl.WRITE_LOG[:]
        return q
    return hook


# --------------------------------------------------------------------------------- C02
def _lookup(ix, driver, i, op, res):
    t = ix.t
    rows = []
    for l in pool_of(ix, driver):
        node, e = guarded(lambda: t.lru_trie.lru_node(l))
        if e:
            rows.append({"l": l, "found": False, "wind": b"", "exc": e})
            continue
        if node is None:
            rows.append({"l": l, "found": False, "wind": b"", "exc": ""})
        else:
            w, e2 = guarded(lambda: t.lru_trie.windup_lru(node.block))
            rows.append({"l": l, "found": True, "wind": w if w is not None else b"", "exc": e2})
    dfs, e = guarded(lambda: [lru for _, lru in t.lru_trie.dfs_iter()])
    return {"lookup": rows, "dfs": dfs if dfs is not None else [], "dfsexc": e}


hook_lookup = wrap(_lookup)


# --------------------------------------------------------------------------------- C03
def _links(ix, driver, i, op, res):
    t = ix.t
    lo, e1 = guarded(lambda: [{"s": s, "t": tg} for s, tg in t.links_iter(out=True)])
    li, e2 = guarded(lambda: [{"p": p, "o": o} for p, o in t.links_iter(out=False)])
    deg = []
    pages, _ = guarded(lambda: [lru for _, lru in t.pages_iter()])
    for l in (pages or []):
        row, e = guarded(lambda: {
            "l": l,
            "i": t.get_page_indegree(l), "o": t.get_page_outdegree(l), "d": t.get_page_degree(l),
            "iw": t.get_page_indegree(l, weighted=True), "ow": t.get_page_outdegree(l, weighted=True),
            "dw": t.get_page_degree(l, weighted=True)})
        if row is None:
            row = {"l": l, "i": -1, "o": -1, "d": -1, "iw": -1, "ow": -1, "dw": -1}
        deg.append(row)
    return {"lo": lo or [], "li": li or [], "liexc": (e1 or "") + (e2 or ""), "deg": deg}


hook_links = wrap(_links)


# --------------------------------------------------------------------------------- C04
def _resolve(ix, driver, i, op, res):
    t = ix.t
    rows = []
    for l in pool_of(ix, driver):
        we, e1 = guarded(lambda: t.retrieve_webentity(l))
        p, e2 = guarded(lambda: t.retrieve_prefix(l))
        by, e3 = guarded(lambda: t.get_webentity_by_prefix(l))
        rows.append({"l": l, "we": we or 0, "e1": e1, "p": p or b"", "e2": e2, "by": by or 0, "e3": e3})
    return {"res": rows}


hook_resolve = wrap(_resolve)


# --------------------------------------------------------------------------------- C06
def _potential(ix, driver, i, op, res):
    t = ix.t
    rows = []
    for l in pool_of(ix, driver):
        if driver is not None and not driver.family_ok([l]):
            continue
        p, e = guarded(lambda: t.get_potential_prefix(l))
        rows.append({"l": l, "p": p if p else b"", "exc": e})
    return {"pot": rows}


hook_potential = wrap(_potential)


# --------------------------------------------------------------------------------- C19
def _metrics(ix, driver, i, op, res):
    t = ix.t
    m, e = guarded(lambda: t.metrics())
    if m is None:
        return {"metrics": {"exc": e, "nodes": 0, "pages": 0, "crawled": 0, "tails": 0, "frag": 0,
                            "stems": 0, "links": 0}}
    lt = m["lru_trie"]
    return {"metrics": {"exc": "", "nodes": lt["nb_nodes"], "pages": lt["nb_pages"],
                        "crawled": lt["nb_crawled_pages"], "tails": lt["nb_tail_nodes"],
                        "frag": lt["nb_fragmented_nodes"], "stems": lt["nb_stems"],
                        "links": m["link_store"]["nb_links"]}}


hook_metrics = wrap(_metrics)
