# Property-specific read-only queries logged after each request (the argument grids the
# properties quantify over).  Every hook returns a dict of concrete values (LRUs as bytes).
import os
import warnings

import impl
from impl import exc_name, stems_of


def pool_of(ix, driver):
    """LRUs to probe with: the universe, everything mentioned so far, their stem-prefixes,
    plus LRUs absent from the index (extensions and sibling replacements)."""
    base = set(getattr(ix, "pool", set()))
    if driver is not None:
        base |= set(driver.u.lrus)
    out = set()
    for l in base:
        st = stems_of(l)
        for n in range(1, len(st) + 1):
            out.add(b"".join(st[:n]))
    extra = set()
    stems = sorted(set(s for l in out for s in stems_of(l)))
    for k, l in enumerate(sorted(out)):
        if k % 3 == 0 and stems:
            extra.add(l + stems[k % len(stems)])                      # extension, mostly absent
        st = stems_of(l)
        if k % 4 == 1 and len(st) > 1:
            extra.add(b"".join(st[:-1]) + stems[(k * 7) % len(stems)])  # sibling replacement
    extra.add(b"s:zz|")
    return sorted(out | extra)


def note_pool(ix, op):
    if not hasattr(ix, "pool"):
        ix.pool = set()
    if op is None:
        return

    def walk(x):
        if isinstance(x, (bytes, bytearray)):
            ix.pool.add(bytes(x))
        elif isinstance(x, dict):
            for v in x.values():
                walk(v)
        elif isinstance(x, (list, tuple)):
            for v in x:
                walk(v)
    walk(op)


def guarded(fn):
    """Run a query; returns (value, exc-name)."""
    try:
        with warnings.catch_warnings(), impl.time_limit():
            warnings.simplefilter("ignore")
            return fn(), ""
    except Exception as e:
        return None, exc_name(e)


def query_noise(ix, driver, i):
    """Between two requests of a history, a sample of read-only requests of every OTHER kind (answers ignored):
    whatever a query leaves behind in a long-lived object is then there when the next request runs."""
    import random
    rr = random.Random(i * 7919 + len(getattr(ix, "pool", ())))
    if rr.random() < 0.45:
        return
    calls, e = guarded(lambda: readonly_calls(ix, driver, i, limit=5))
    if not calls:
        return
    we = [c for c in calls if c[0].startswith(("get_webentity", "get_webentities", "paginate"))]
    other = [c for c in calls if c not in we]
    always = [c for c in we if c[0] == "get_webentity_pages"]      # the commonest request: for every webentity
    for name, fn in always + rr.sample(we, min(9, len(we))) + rr.sample(other, min(5, len(other))):
        guarded(fn)


class TextArgs(object):
    """The same Traph, its public methods called with text (str) LRUs wherever the bytes are plain ASCII:
    every public method encodes text arguments, so the answers must be the same."""

    def __init__(self, t):
        object.__setattr__(self, "_t", t)

    def __getattr__(self, name):
        v = getattr(self._t, name)
        if not callable(v) or name.startswith("_"):
            return v

        def call(*a, **kw):
            return v(*[impl._as_text(x) for x in a], **{k: impl._as_text(x) for k, x in kw.items()})
        return call

    def __setattr__(self, name, value):
        setattr(self._t, name, value)


def wrap(body):
    def hook(ix, driver, i, op, res):
        note_pool(ix, op)
        if op is None or op.get("op") not in ("CoopBegin", "CoopNext"):
            query_noise(ix, driver, i)
        del impl.WRITE_LOG[:]
        real = ix.t
        if i % 3 == 2:          # every third step, the queries of the hook pass text instead of bytes
            ix.t = TextArgs(real)
        # every other step the plain requests run with every loop iteration a yield point (they drain their
        # own generator): the yield paths, which small data never reach at the built-in thresholds, are taken
        ay = None
        if i % 2 == 1:
            from coop import always_yield
            ay = always_yield()
            ay.__enter__()
        try:
            q = body(ix, driver, i, op, res)
        finally:
            ix.t = real
            if ay is not None:
                ay.__exit__(None, None, None)
        q["wrote"] = len(impl.WRITE_LOG)
        del impl.WRITE_LOG[:]
        return q
    return hook


# --------------------------------------------------------------------------------- C02
def _lookup(ix, driver, i, op, res):
    t = ix.t
    rows = []
    for l in pool_of(ix, driver):
        node, e = guarded(lambda: t.lru_trie.lru_node(l))
        if e:
            rows.append({"l": l, "found": False, "wind": b"", "exc": e})
            continue
        if node is None:
            rows.append({"l": l, "found": False, "wind": b"", "exc": ""})
        else:
            w, e2 = guarded(lambda: t.lru_trie.windup_lru(node.block))
            rows.append({"l": l, "found": True, "wind": w if w is not None else b"", "exc": e2})
    dfs, e = guarded(lambda: [lru for _, lru in t.lru_trie.dfs_iter()])
    return {"lookup": rows, "dfs": dfs if dfs is not None else [], "dfsexc": e}


hook_lookup = wrap(_lookup)


# --------------------------------------------------------------------------------- C03
def _links(ix, driver, i, op, res):
    t = ix.t
    lo, e1 = guarded(lambda: [{"s": s, "t": tg} for s, tg in t.links_iter(out=True)])
    li, e2 = guarded(lambda: [{"p": p, "o": o} for p, o in t.links_iter(out=False)])
    deg = []
    pages, _ = guarded(lambda: [lru for _, lru in t.pages_iter()])
    for l in (pages or []):
        row, e = guarded(lambda: {
            "l": l,
            "i": t.get_page_indegree(l), "o": t.get_page_outdegree(l), "d": t.get_page_degree(l),
            "iw": t.get_page_indegree(l, weighted=True), "ow": t.get_page_outdegree(l, weighted=True),
            "dw": t.get_page_degree(l, weighted=True)})
        if row is None:
            row = {"l": l, "i": -1, "o": -1, "d": -1, "iw": -1, "ow": -1, "dw": -1}
        deg.append(row)
    return {"lo": lo or [], "li": li or [], "liexc": (e1 or "") + (e2 or ""), "deg": deg}


hook_links = wrap(_links)


# --------------------------------------------------------------------------------- C04
def _rotated(ix, pool, i):
    """Query order with locality: first the LRU queried last before the request (a stale
    one-entry cache would answer it), then the pool rotated so that the last one varies."""
    if not pool:
        return pool
    k = (i * 7) % len(pool)
    order = pool[k:] + pool[:k]
    last = getattr(ix, "last_queried", None)
    if last is not None:
        order = [last] + order
    ix.last_queried = order[-1]
    return order


def _resolve(ix, driver, i, op, res):
    t = ix.t
    rows = []
    for l in _rotated(ix, pool_of(ix, driver), i):
        we, e1 = guarded(lambda: t.retrieve_webentity(l))
        p, e2 = guarded(lambda: t.retrieve_prefix(l))
        by, e3 = guarded(lambda: t.get_webentity_by_prefix(l))
        rows.append({"l": l, "we": we or 0, "e1": e1, "p": p or b"", "e2": e2, "by": by or 0, "e3": e3})
    return {"res": rows}


hook_resolve = wrap(_resolve)


# --------------------------------------------------------------------------------- C06
def _potential(ix, driver, i, op, res):
    t = ix.t
    rows = []
    probe = list(_rotated(ix, pool_of(ix, driver), i))
    if driver is not None and op is not None and op.get("op") in ("Clear", "ClearKeep", "Recreate", "Reopen"):
        # the request has just (re)compiled the rules held in RAM: the LRUs of the universe that the rule family
        # recognises only case-insensitively are asked too, whether or not a request has named them yet
        probe += [l for l in driver.u.lrus if l != l.lower() and l not in probe][:6]
    for l in probe:
        if driver is not None and not driver.family_ok([l]):
            continue
        p, e = guarded(lambda: t.get_potential_prefix(l))
        rows.append({"l": l, "p": p if p else b"", "exc": e})
    # the token-level meaning of the rule family (Lru!Match) against the real regexes
    match = []
    for l in (pool_of(ix, driver)[::3] if i % 6 == 0 else []):
        for r in ({"k": "domain", "n": 0}, {"k": "subdomain", "n": 0}, {"k": "path", "n": 1}, {"k": "path", "n": 2}):
            n = impl.real_match_len(r, l)
            if n is not None:
                match.append({"l": l, "rule": r, "n": n})
    return {"pot": rows, "match": match}


hook_potential = wrap(_potential)


# --------------------------------------------------------------------------------- C19
def _metrics(ix, driver, i, op, res):
    t = ix.t
    m, e = guarded(lambda: t.metrics())
    if m is None:
        return {"metrics": {"exc": e, "nodes": 0, "pages": 0, "crawled": 0, "tails": 0, "frag": 0,
                            "stems": 0, "links": 0}}
    lt, b, lm = m["lru_trie"], m["bst"], m["links"]
    return {"metrics": {"exc": "", "nodes": lt["nb_nodes"], "pages": lt["nb_pages"],
                        "crawled": lt["nb_crawled_pages"], "tails": lt["nb_tail_nodes"],
                        "frag": lt["nb_fragmented_nodes"], "stems": lt["nb_stems"],
                        "links": m["link_store"]["nb_links"], "maxtail": lt["max_tail"],
                        "bst": {"nb": b["nb_bst"], "maxh": b["max_bst_height"], "maxs": b["max_bst_size"]},
                        "lm": {"maxin": lm["max_inlinks_len"], "maxout": lm["max_outlinks_len"],
                               "inlru": lm["max_inlinks_lru"] or b"", "outlru": lm["max_outlinks_lru"] or b""}}}


hook_metrics = wrap(_metrics)


# ------------------------------------------------------------------- webentity-level queries
def _webentities(ix, salt):
    """{id: [prefixes]} as the index reports them, prefix lists deterministically shuffled."""
    import random
    t = ix.t
    we = {}
    for node, lru in t.webentity_prefix_iter():
        we.setdefault(node.webentity(), []).append(lru)
    out = []
    for wid in sorted(we):
        ps = sorted(we[wid])
        random.Random(salt * 7919 + wid).shuffle(ps)
        out.append((wid, ps))
    return out


def _pres(ix):
    t = ix.t
    rows = []
    for _, l in t.pages_iter():
        w, e = guarded(lambda: t.retrieve_webentity(l))
        rows.append({"l": l, "we": w or 0})
    return rows


def _wepages(ix, wes):
    t = ix.t
    rows = []
    for wid, ps in wes:
        pg, e1 = guarded(lambda: [{"l": p["lru"], "cr": bool(p["crawled"])} for p in t.get_webentity_pages(wid, ps)])
        cp, e2 = guarded(lambda: [{"l": p["lru"], "cr": bool(p["crawled"])} for p in t.get_webentity_crawled_pages(wid, ps)])
        rows.append({"id": wid, "ps": ps, "pages": pg or [], "cpages": cp or [], "exc": e1 + e2})
    return rows


def _c05(ix, driver, i, op, res):
    wes, e = guarded(lambda: _webentities(ix, i))
    return {"pres": _pres(ix), "wp": _wepages(ix, wes or [])}


hook_wepages = wrap(_c05)


def _net(g, tallies):
    links, tal = [], []
    for s, cnt in g.items():
        c = u = 0
        for k, w in cnt.items():
            if k == "pages_crawled":
                c = w
            elif k == "pages_uncrawled":
                u = w
            else:
                links.append({"s": s or 0, "t": k or 0, "w": w})
        if tallies:
            tal.append({"id": s or 0, "c": c, "u": u})
    return {"links": links, "tal": tal}


def _c07(ix, driver, i, op, res):
    t = ix.t
    nets = []
    for slow in (False, True):
        for out in (True, False):
            for auto in (False, True):
                fn = t.get_webentities_links_slow if slow else t.get_webentities_links
                g, e = guarded(lambda: fn(out=out, include_auto=auto))
                n = _net(g, not slow) if g is not None else {"links": [], "tal": []}
                n.update({"slow": slow, "out": out, "auto": auto, "exc": e})
                nets.append(n)
    return {"pres": _pres(ix), "nets": nets}


hook_network = wrap(_c07)

COMBOS = [(a, b, c) for a in (False, True) for b in (False, True) for c in (False, True) if a or b or c]


def _c08(ix, driver, i, op, res):
    t = ix.t
    wes, _ = guarded(lambda: _webentities(ix, i))
    wes = wes or []
    pl = []
    for wid, ps in wes:
        for inb, inter, outb in COMBOS:
            r, e = guarded(lambda: [{"s": s, "t": tg, "w": w} for s, tg, w in
                                    t.get_webentity_pagelinks(wid, ps, include_inbound=inb,
                                                              include_internal=inter, include_outbound=outb)])
            pl.append({"id": wid, "inb": inb, "int": inter, "out": outb, "links": r or [], "exc": e})
    cit = []
    for wid, ps in wes:
        o, e1 = guarded(lambda: sorted((x or 0) for x in t.get_webentity_outlinks(wid, ps)))
        n, e2 = guarded(lambda: sorted((x or 0) for x in t.get_webentity_inlinks(wid, ps)))
        od, e3 = guarded(lambda: t.get_webentity_outdegree(wid, ps))
        idg, e4 = guarded(lambda: t.get_webentity_indegree(wid, ps))
        dg, e5 = guarded(lambda: t.get_webentity_degree(wid, ps))
        cit.append({"id": wid, "cited": o or [], "citing": n or [], "od": od if od is not None else -1,
                    "idg": idg if idg is not None else -1, "dg": dg if dg is not None else -1,
                    "exc": e1 + e2 + e3 + e4 + e5})
    return {"pres": _pres(ix), "wp": _wepages(ix, wes), "pl": pl, "cit": cit}


hook_welinks = wrap(_c08)


def _c13(ix, driver, i, op, res):
    t = ix.t
    wes, _ = guarded(lambda: _webentities(ix, i))
    rows = []
    for wid, ps in (wes or []):
        pa, e1 = guarded(lambda: sorted(t.get_webentity_parent_webentities(wid, ps)))
        ch, e2 = guarded(lambda: sorted(t.get_webentity_child_webentities(wid, ps)))
        rows.append({"id": wid, "parents": pa or [], "children": ch or [], "exc": e1 + e2})
    return {"hier": rows}


hook_hierarchy = wrap(_c13)


def _c20(ix, driver, i, op, res):
    t = ix.t
    wes, _ = guarded(lambda: _webentities(ix, i))
    wes = wes or []
    rows = []
    for wid, ps in wes:
        for k in (1, 2, 3, 10):
            for depth in (-1, 0, 1, 2):
                r, e = guarded(lambda: [{"l": p["lru"], "n": p["indegree"]} for p in
                                        t.get_webentity_most_linked_pages(wid, ps, pages_count=k,
                                                                          max_depth=None if depth < 0 else depth)])
                rows.append({"id": wid, "k": k, "depth": depth, "top": r or [], "exc": e})
    return {"wp": _wepages(ix, wes), "top": rows}


hook_toplinked = wrap(_c20)


# ------------------------------------------------------------------------------- C09 / C10
READ_ONLY_OPS = ("Paginate", "PagLinks")
PAGE_INSERTIONS = ("AddPage", "AddPages", "AddLinks", "IndexBatchCrawl")


def _tok(ret):
    tok = ret.get("token") if isinstance(ret, dict) else None
    d = impl.token_decode(tok) if tok else None
    return {"hasToken": bool(tok), "ti": d[0] if d else 0, "tpath": list(d[1]) if d else [],
            "tokenRoundTrip": (impl.token_roundtrip(tok) if tok else True),
            "tokenIndep": (impl.token_indep(tok) if tok else True)}


def _pagination(ix, driver, i, op, res):
    """Session bookkeeping for paginate_webentity_pages (relational clauses of C09)."""
    t = ix.t
    st = getattr(ix, "pagstate", None)
    q = {}
    if op is not None and op["op"] == "Paginate" and not op["token"]:
        st = ix.pagstate = {"id": op["id"], "ps": list(op["ps"]), "sofar": [], "through": None, "cthrough": None,
                            "pure": True}
    elif op is not None and st is not None and op["op"] not in PAGE_INSERTIONS and op["op"] != "Paginate":
        st["pure"] = False      # C09 quantifies over page insertions between calls, nothing else
    if op is not None and op["op"] in ("Clear", "Recreate", "ClearKeep"):
        st = ix.pagstate = None
    if st is not None:
        wp, e = guarded(lambda: [(p["lru"], bool(p["crawled"])) for p in t.get_webentity_pages(st["id"], st["ps"])])
        wp = wp or []
        now, cnow = set(l for l, _ in wp), set(l for l, c in wp if c)
        st["through"] = now if st["through"] is None else (st["through"] & now)
        st["cthrough"] = cnow if st["cthrough"] is None else (st["cthrough"] & cnow)
        if op is not None and op["op"] == "Paginate" and (op["id"], list(op["ps"])) == (st["id"], st["ps"]):
            ret = res["ret"] if isinstance(res.get("ret"), dict) else {}
            pages = [{"l": p["lru"], "cr": bool(p["crawled"])} for p in ret.get("pages", [])]
            row = {"exc": res["exc"], "done": bool(ret.get("done", False)), "pages": pages,
                   "count": ret.get("count", -1), "ccount": ret.get("count_crawled", -1),
                   "sofar": list(st["sofar"]), "wpages": [{"l": l, "cr": c} for l, c in wp],
                   "through": sorted(st["through"]), "cthrough": sorted(st["cthrough"]), "pure": st["pure"]}
            row.update(_tok(ret))
            q["pag"] = row
            st["sofar"] += [p["l"] for p in pages]
    return q


hook_pagination = wrap(_pagination)


def _paglinks(ix, driver, i, op, res):
    t = ix.t
    st = getattr(ix, "plstate", None)
    q = {}
    if op is not None and op["op"] == "PagLinks" and not op["token"]:
        st = ix.plstate = {"key": (op["id"], list(op["ps"]), op["int"], op["out"]), "sofar": [], "quiet": True}
    elif op is not None and st is not None and op["op"] not in READ_ONLY_OPS:
        st["quiet"] = False
    if op is not None and op["op"] in ("Clear", "Recreate", "ClearKeep"):
        st = ix.plstate = None
    if st is not None and op is not None and op["op"] == "PagLinks" and \
            (op["id"], list(op["ps"]), op["int"], op["out"]) == st["key"]:
        ret = res["ret"] if isinstance(res.get("ret"), dict) else {}
        links = [{"s": s, "t": tg, "w": w} for s, tg, w in ret.get("pagelinks", [])]
        full, e = guarded(lambda: [{"s": s, "t": tg, "w": w} for s, tg, w in t.get_webentity_pagelinks(
            op["id"], list(op["ps"]), include_inbound=False, include_internal=op["int"],
            include_outbound=op["out"])])
        row = {"exc": res["exc"], "done": bool(ret.get("done", False)), "links": links,
               "nsrc": ret.get("count_sourcepages", -1), "nlinks": ret.get("count_pagelinks", -1),
               "sofar": list(st["sofar"]), "full": full or [], "fullexc": e, "quiet": st["quiet"]}
        row.update(_tok(ret))
        q["pagl"] = row
        st["sofar"] += links
    return q


hook_paglinks = wrap(_paglinks)


# ------------------------------------------------------------------------------------- C14
def _digest(raws):
    import hashlib
    h = hashlib.sha256()
    for r in raws:
        h.update(b"|%d|" % len(r))
        h.update(r)
    return h.hexdigest()


def readonly_calls(ix, driver, salt, limit=40):
    """(name, thunk) for every read-only request with an argument grid that includes LRUs
    absent from the index, unknown webentities, wrong prefixes, every switch, tokens."""
    t = ix.t
    pool = pool_of(ix, driver)
    if len(pool) > limit:
        step = max(1, len(pool) // limit)
        pool = pool[salt % step::step]
    wes, _ = guarded(lambda: _webentities(ix, salt))
    wes = list(wes or [])
    unknown = (max([w for w, _ in wes] + [0]) + 7, [pool[0]] if pool else [b"s:zz|"])
    wrongp = (wes[0][0], [b"s:nowhere|h:x|"]) if wes else None
    calls = []

    def add(name, fn):
        calls.append((name, fn))
    for l in pool:
        add("retrieve_prefix", lambda l=l: t.retrieve_prefix(l))
        add("retrieve_webentity", lambda l=l: t.retrieve_webentity(l))
        add("get_potential_prefix", lambda l=l: t.get_potential_prefix(l))
        add("get_webentity_by_prefix", lambda l=l: t.get_webentity_by_prefix(l))
        add("expand_prefix", lambda l=l: t.expand_prefix(l))
        for a, b, c in ((True, True, True), (True, False, False), (False, True, False), (False, False, True)):
            add("get_page_links", lambda l=l, a=a, b=b, c=c: t.get_page_links(l, a, b, c))
        for wgt in (False, True):
            add("get_page_indegree", lambda l=l, w=wgt: t.get_page_indegree(l, w))
            add("get_page_outdegree", lambda l=l, w=wgt: t.get_page_outdegree(l, w))
            add("get_page_degree", lambda l=l, w=wgt: t.get_page_degree(l, w))
    targets = wes + [unknown] + ([wrongp] if wrongp else [])
    # the id omitted (None / 0 / False: "the prefixes are supposed to match the webentity id, we do not check"),
    # with a first prefix that is not in the index, alone or followed by real ones; an empty prefix list
    absent = [l for l in pool if l.count(b"|") >= 3][-1:] or [b"s:nowhere|h:x|h:y|"]
    absent = [absent[0] + b"p:never-indexed|"]
    targets += [(None, absent), (0, absent + (list(wes[0][1]) if wes else [])), (False, list(wes[-1][1]) if wes else absent),
                (wes[0][0] if wes else 1, [])]
    for wid, ps in targets:
        add("get_webentity_pages", lambda w=wid, p=ps: t.get_webentity_pages(w, p))
        add("get_webentity_crawled_pages", lambda w=wid, p=ps: t.get_webentity_crawled_pages(w, p))
        for k, dp in ((1, None), (3, 0), (10, 1)):
            add("get_webentity_most_linked_pages", lambda w=wid, p=ps, k=k, dp=dp:
                t.get_webentity_most_linked_pages(w, p, pages_count=k, max_depth=dp))
        add("get_webentity_parent_webentities", lambda w=wid, p=ps: t.get_webentity_parent_webentities(w, p))
        add("get_webentity_child_webentities", lambda w=wid, p=ps: t.get_webentity_child_webentities(w, p))
        for a in (False, True):
            for b in (False, True):
                for c in (False, True):
                    add("get_webentity_pagelinks", lambda w=wid, p=ps, a=a, b=b, c=c:
                        t.get_webentity_pagelinks(w, p, include_inbound=a, include_internal=b, include_outbound=c))
        add("get_webentity_outlinks", lambda w=wid, p=ps: t.get_webentity_outlinks(w, p))
        add("get_webentity_inlinks", lambda w=wid, p=ps: t.get_webentity_inlinks(w, p))
        add("get_webentity_outdegree", lambda w=wid, p=ps: t.get_webentity_outdegree(w, p))
        add("get_webentity_indegree", lambda w=wid, p=ps: t.get_webentity_indegree(w, p))
        add("get_webentity_degree", lambda w=wid, p=ps: t.get_webentity_degree(w, p))
        for co in (False, True):
            def pag(w=wid, p=ps, co=co):
                tok, out = None, []
                for _ in range(12):
                    r = t.paginate_webentity_pages(w, p, page_count=2, pagination_token=tok, crawled_only=co)
                    out.append(r)
                    if r["done"]:
                        break
                    tok = r["token"]
                return out
            add("paginate_webentity_pages", pag)
        for io in ((True, False), (True, True), (False, True), (False, False)):
            def pagl(w=wid, p=ps, io=io):
                tok, out = None, []
                for _ in range(12):
                    r = t.paginate_webentity_pagelinks(w, p, include_internal=io[0], include_outbound=io[1],
                                                       source_page_count=1, pagination_token=tok)
                    out.append(r)
                    if r["done"]:
                        break
                    tok = r["token"]
                return out
            add("paginate_webentity_pagelinks", pagl)
        add("paginate_webentity_pages(bad token)", lambda w=wid, p=ps:
            t.paginate_webentity_pages(w, p, page_count=1, pagination_token="0#3zZ"))
        add("paginate_webentity_pagelinks(bad token)", lambda w=wid, p=ps:
            t.paginate_webentity_pagelinks(w, p, source_page_count=1, pagination_token="7#1"))
    for slow in (False, True):
        for out in (True, False):
            for auto in (False, True):
                fn = t.get_webentities_links_slow if slow else t.get_webentities_links
                add("get_webentities_links" + ("_slow" if slow else ""),
                    lambda fn=fn, out=out, auto=auto: fn(out=out, include_auto=auto))
    add("get_webentities_inlinks", lambda: t.get_webentities_inlinks())
    add("get_webentities_outlinks", lambda: t.get_webentities_outlinks(include_auto=True))
    add("links_iter", lambda: (list(t.links_iter(out=True)), list(t.links_iter(out=False))))
    add("pages_iter", lambda: [(l, n.is_crawled()) for n, l in t.pages_iter()])
    add("webentity_prefix_iter", lambda: [(l, n.webentity()) for n, l in t.webentity_prefix_iter()])
    add("count_pages", lambda: t.count_pages())
    add("count_crawled_pages", lambda: t.count_crawled_pages())
    add("count_links", lambda: t.count_links())
    add("metrics", lambda: t.metrics())
    add("links_metrics", lambda: t.links_metrics())
    return calls


def _readonly(ix, driver, i, op, res):
    rows = {}
    for name, fn in readonly_calls(ix, driver, i):
        before = _digest(ix.raw())
        del impl.WRITE_LOG[:]
        val, e = guarded(fn)
        wrote = len(impl.WRITE_LOG)
        after = _digest(ix.raw())
        r = rows.setdefault(name, {"call": name, "n": 0, "changed": 0, "wrote": 0, "failed": 0, "other": 0})
        r["n"] += 1
        r["changed"] += int(before != after)
        r["wrote"] += wrote
        if e == "TraphException":
            r["failed"] += 1
        elif e:
            r["other"] += 1
    return {"ro": [rows[k] for k in sorted(rows)]}


hook_readonly = wrap(_readonly)


# -------------------------------------------------------------------------- C11 / C15
def _norm(x):
    from collections import Counter
    if isinstance(x, (set, frozenset)):
        return sorted((_norm(v) for v in x), key=repr)
    if isinstance(x, dict):
        return sorted(((_norm(k), _norm(v)) for k, v in x.items()), key=repr)
    if isinstance(x, (list, tuple)):
        return [_norm(v) for v in x]
    if isinstance(x, float) and x == int(x):
        return int(x)
    return x


def answers_digest(ix, driver, salt):
    """One digest of the answers of every read-only request of the C14 grid."""
    import hashlib
    h = hashlib.sha256()
    for name, fn in readonly_calls(ix, driver, 0, limit=10):
        val, e = guarded(fn)
        h.update(repr((name, e, _norm(val))).encode("utf-8", "replace"))
    return h.hexdigest()


def _life(ix, driver, i, op, res):
    # the digest taken after a reopen is compared with the one taken before it: both must ask the same
    # questions, so a reopen request does not extend the probe pool (the anchors it names would)
    if op is not None and op.get("op") == "Reopen" and hasattr(ix, "life_pool"):
        saved, ix.pool = ix.pool, set(ix.life_pool)
        try:
            q = {"ans": answers_digest(ix, driver, i)}
        finally:
            ix.pool = saved
    else:
        q = {"ans": answers_digest(ix, driver, i)}
        ix.life_pool = set(getattr(ix, "pool", set()))
    if op is not None and op.get("op") in ("Clear", "Recreate"):
        fresh = impl.Index(ix.backend, op["def"], op["rules"])
        try:
            a = impl.observe(fresh)
            b = impl.observe(ix)
            fresh.pool = set(getattr(ix, "pool", set()))
            # the rules held in RAM are part of "indistinguishable": the prefix a page WOULD get
            if driver is not None:
                probes = sorted(set(list(driver.u.lrus[:8]) + [a_ + x + y
                                                               for a_ in list(getattr(driver, "after_clear", None) or [])[:3]
                                                               for x in driver.u.paths[:2] for y in driver.u.paths[:2]]))
            else:
                probes = sorted(pool_of(ix, None))[:12]
            pot = lambda z: [guarded(lambda l=l: z.t.get_potential_prefix(l)) for l in probes]
            q["fresh"] = {"rawsame": fresh.raw() == ix.raw(), "obssame": a == b,
                          "anssame": answers_digest(fresh, driver, i) == q["ans"],
                          "potsame": _norm(pot(fresh)) == _norm(pot(ix))}
        finally:
            fresh.destroy()
    return q


hook_life = wrap(_life)


def prehook_mmap(ix):
    """Right after a request, before anything else touches the files: every block read through
    FileStorage.map() must equal the block read through the storage itself."""
    if ix.backend != "file":
        return None
    maps = []
    for st in (ix.t.lru_trie_storage, ix.t.links_store_storage):
        m, e = guarded(lambda: st.map())      # created first: sees the file as it is now
        maps.append((st, m))
    bad = n = 0
    for st, m in maps:
        if m is None:
            bad += 1
            continue
        try:
            for off in range(0, len(st), st.block_size):
                n += 1
                a, e1 = guarded(lambda: m.read(off))
                b, e2 = guarded(lambda: st.read(off))
                if e1 or e2 or bytes(a or b"") != bytes(b or b""):
                    bad += 1
        finally:
            guarded(lambda: m.release())
    return {"mmap": {"n": n, "bad": bad}}


STRADDLERS = (("pages_iter", lambda t: t.pages_iter()),
              ("webentity_prefix_iter", lambda t: t.webentity_prefix_iter()),
              ("links_iter_out", lambda t: t.links_iter(out=True)),
              ("links_iter_in", lambda t: t.links_iter(out=False)),
              ("network", lambda t: t.get_webentities_links_iter(out=True, include_auto=True)))


def _gen_item(x):
    if isinstance(x, (list, tuple)):
        return [_gen_item(v) for v in x]
    if isinstance(x, (bytes, str, int, float, bool)) or x is None:
        return x
    if isinstance(x, dict):
        return _norm(dict((k, _gen_item(v)) for k, v in x.items()))
    if hasattr(x, "block"):
        return ("node", x.block)
    return type(x).__name__


def straddle(ix, i, op):
    """Public generators that are started before a request and advanced after it (a paused export
    outliving an insertion, a rule installation, a clear()): both back-ends hand the generator the same
    blocks, so what it yields, where it ends and how it fails must be the same.  A generator belongs to
    its index object: those of an object that was closed (Reopen / Recreate) are dropped."""
    import hashlib
    if op is not None and op.get("op") in ("Reopen", "Recreate"):
        ix.gens = []
    live = getattr(ix, "gens", None)
    if live is None:
        live = ix.gens = []
    rec, keep = [], []
    for name, g, born in live:
        items, state = [], "live"
        for _ in range(2):
            v, e = guarded(lambda: next(g))
            if e == "StopIteration":
                state = "done"
                break
            if e:
                state = "exc:" + e
                break
            items.append(_gen_item(v))
        rec.append((name, born, items, state))
        if state == "live" and i - born < 6:
            keep.append((name, g, born))
    if i % 2 == 0:
        t = getattr(ix.t, "_t", ix.t)
        for k in range(2):
            name, mk = STRADDLERS[(i // 2 + 2 * k + (i // 10)) % len(STRADDLERS)]
            g, e = guarded(lambda: mk(t))
            if g is not None:
                # one item now, so that the generator is really under way when the next request runs
                v, e = guarded(lambda: next(g))
                rec.append((name, i, [_gen_item(v)] if not e else [], "live" if not e else "start:" + e))
                if not e:
                    keep.append((name, g, i))
    ix.gens = keep
    ix.gens_advanced = getattr(ix, "gens_advanced", 0) + sum(len(r[2]) for r in rec)
    return hashlib.sha256(repr(_norm(rec)).encode("utf-8", "replace")).hexdigest(), rec


def _pairhook(ix, driver, i, op, res):
    q = {"ans": answers_digest(ix, driver, i)}
    q["gens"], rec = straddle(ix, i, op)
    if os.environ.get("VERIF_DEBUG_GENS"):
        print("GENS", ix.backend, i, op and op.get("op"), rec)
    return q


hook_pair = wrap(_pairhook)
