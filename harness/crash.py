# Fault enumeration for property C18: the program-ordered write log of a real history is
# cut at every position (block granularity; inside appended blocks at byte offsets 1, mid,
# size-1; file creation is an event), both files are materialized, and the real Traph is
# reopened on them.
import os
import shutil
import tempfile
import warnings

import impl
from impl import LINK_BS, TRIE_BS, exc_name, rule_regex
from abstraction import block_record, decode_state
from hooks import guarded

QUERIES = ("pages_iter", "links_out", "links_in", "webentity_prefix_iter", "count_pages",
           "count_crawled_pages", "count_links", "metrics", "links_metrics", "page_links",
           "network", "network_in", "network_slow", "we_pages", "dfs_iter", "nodes_iter")


TRUNC = {"lru_trie.dat": "XT", "link_store.dat": "XL"}


class FileEvents(object):
    """File re-creations (`open(path, "wb+")` in traph/traph.py: the constructor and clear()) are not
    block writes, but they change what is in the files: they are recorded as events of the write log,
    at their program position, so that a cut may fall between the two re-creations of a clear()."""

    def __init__(self):
        self.events = []          # (number of block writes issued before, tag)

    def __enter__(self):
        log = self.events

        class Truncating(object):
            """A store file opened without truncation: emptying it later (truncate(0)) is the same event."""

            def __init__(self, f, tag):
                self.__dict__["_f"], self.__dict__["_tag"] = f, tag

            def __getattr__(self, name):
                return getattr(self._f, name)

            def truncate(self, size=None):
                r = self._f.truncate(size)
                if size == 0 or (size is None and self._f.tell() == 0):
                    log.append((len(impl.WRITE_LOG), self._tag))
                return r

        def rec_open(path, mode="r", *a, **kw):
            f = open(path, mode, *a, **kw)
            tag = TRUNC.get(os.path.basename(str(path)))
            if tag and "w" in mode:
                log.append((len(impl.WRITE_LOG), tag))
            elif tag and "+" in mode:
                return Truncating(f, tag)
            return f
        impl.tt.open = rec_open
        return self

    def __exit__(self, *a):
        try:
            del impl.tt.open
        except AttributeError:
            pass

    def merged(self, step):
        """The block writes of impl.WRITE_LOG with the file events at their positions."""
        out, ev = [], list(self.events)
        for j, w in enumerate(impl.WRITE_LOG):
            while ev and ev[0][0] <= j:
                out.append((ev.pop(0)[1], 0, False, b"", step))
            out.append(w + (step,))
        for _, tag in ev:
            out.append((tag, 0, False, b"", step))
        del self.events[:]
        return out


def _meaning(obs):
    return {"pages": [l for l, _ in obs.get("pages", [])],
            "links": [{"s": s, "t": t, "w": w} for s, t, w in obs.get("outs", [])]}


def record_history(driver, nsteps, file_events=False):
    """Run a random history on a file index keeping the whole raw write log.  With `file_events`
    the re-creations of the two files are part of the log and `after[i]` is what the history
    completed up to request i means (histories with clear() are not monotone)."""
    default0, rules0 = dict(driver.default), list(driver.rules)
    allw = []          # (tag, offset, is_append, data, step index)
    ram_at = []        # RAM rules in force while step i runs (re-supplied on reopen)
    after = []
    del impl.WRITE_LOG[:]
    fe = FileEvents()
    if file_events:
        fe.__enter__()
    ix = None
    ops = []
    try:
        ix = impl.Index("file", default0, rules0)
        allw += fe.merged(0)
        ram_at.append((default0, list(rules0)))
        obs = impl.observe(ix)
        after.append(_meaning(obs))
        for i in range(nsteps):
            op = driver.draw(obs)
            ops.append(op)
            del impl.WRITE_LOG[:]
            del fe.events[:]
            ram = dict(driver.ram)
            impl.apply_op(ix, op)
            allw += fe.merged(i + 1)
            ram_at.append((dict(driver.default), sorted(ram.items())))
            del impl.WRITE_LOG[:]
            obs = impl.observe(ix)
            after.append(_meaning(obs))
            # the fault space is the set of prefixes of this log: it must explain the files completely (a
            # truncation or a write that bypassed the recorded calls would make every cut meaningless)
            if materialize(allw, len(allw)) != tuple(bytes(x) for x in ix.raw()):
                raise impl.MachineryError("the recorded write log does not reproduce the files after request %d (%s): "
                                          "the library changes its files by a call the harness does not record"
                                          % (i + 1, op.get("op")))
            if "err" in obs:
                break
        final = obs
        raw = ix.raw()
    finally:
        fe.__exit__()
        if ix is not None:
            ix.destroy()
    return {"def": default0, "rules": rules0, "ops": ops, "writes": allw, "ram_at": ram_at,
            "final": final, "raw": raw, "after": after}


def materialize(writes, k, partial=None):
    """Files after the first k writes (+ `partial` bytes of write k if it is an append)."""
    files = {"T": bytearray(), "L": bytearray()}
    for tag, off, app, data, _ in writes[:k]:
        if tag in ("XT", "XL"):       # the file is re-created empty
            del files[tag[1]][:]
            continue
        f = files[tag]
        if off > len(f):
            f.extend(b"\0" * (off - len(f)))
        f[off:off + len(data)] = data
    if partial is not None:
        tag, off, app, data, _ = writes[k]
        f = files[tag]
        f[off:off + partial] = data[:partial]
    return bytes(files["T"]), bytes(files["L"])


def probe(folder, default, rules):
    """Reopen the real Traph on the folder and interrogate it."""
    out = {"outcome": "", "qfail": [], "pages": [], "links": [], "inlinks": [], "changed": 0}
    d = {}
    for a, r in rules:
        d[a] = rule_regex(r)
    try:
        with warnings.catch_warnings(), impl.time_limit():
            warnings.simplefilter("ignore")
            t = impl.tt.Traph(folder=folder, default_webentity_creation_rule=rule_regex(default),
                              webentity_creation_rules=d)
    except impl.tt.TraphException:
        out["outcome"] = "refused"
        return out
    except Exception as e:
        out["outcome"] = "error:" + exc_name(e)
        return out
    out["outcome"] = "opened"

    def on_disk():
        for st in (t.lru_trie_storage, t.links_store_storage):
            st.file.flush()
        return [open(os.path.join(folder, n), "rb").read() for n in ("lru_trie.dat", "link_store.dat")]
    try:
        before, e0 = guarded(on_disk)      # after the constructor (which may re-create a header): C14 is about queries

        def q(name, fn):
            v, e = guarded(fn)
            if e:
                out["qfail"].append(name + ":" + e)
            return v
        pages = q("pages_iter", lambda: [(l, bool(n.is_crawled())) for n, l in t.pages_iter()]) or []
        out["pages"] = [l for l, _ in pages]
        q("links_out", lambda: list(t.links_iter(out=True)))
        q("links_in", lambda: list(t.links_iter(out=False)))
        wes = q("webentity_prefix_iter", lambda: [(l, n.webentity()) for n, l in t.webentity_prefix_iter()]) or []
        q("count_pages", lambda: t.count_pages())
        q("count_crawled_pages", lambda: t.count_crawled_pages())
        q("count_links", lambda: t.count_links())
        if len(t.lru_trie_storage) > TRIE_BS:
            q("metrics", lambda: t.metrics())
        q("links_metrics", lambda: t.links_metrics())
        links, inl = [], []
        for l in out["pages"]:
            r = q("page_links", lambda: t.get_page_links(l, include_inbound=False))
            for s, tg, w in (r or []):
                links.append({"s": s, "t": tg, "w": w})
            r = q("page_links", lambda: t.get_page_links(l, include_inbound=True, include_internal=False,
                                                         include_outbound=False))
            for s, tg, w in (r or []):
                inl.append({"s": s, "t": tg, "w": w})
        out["links"], out["inlinks"] = links, inl
        q("network", lambda: t.get_webentities_links(out=True, include_auto=True))
        q("network_in", lambda: t.get_webentities_links(out=False))
        q("network_slow", lambda: t.get_webentities_links_slow(out=True))
        byid = {}
        for l, w in wes:
            byid.setdefault(w, []).append(l)
        for w, ps in byid.items():
            q("we_pages", lambda: t.get_webentity_pages(w, ps))
            q("we_pagelinks", lambda: t.get_webentity_pagelinks(w, ps, include_inbound=True, include_outbound=True))
        q("dfs_iter", lambda: [l for _, l in t.lru_trie.dfs_iter()])
        q("nodes_iter", lambda: sum(1 for _ in t.lru_trie.nodes_iter()))
        out["qfail"] = sorted(set(out["qfail"]))
        after, e1 = guarded(on_disk)
        if before is not None and after is not None:
            out["changed"] = sum(abs(len(a) - len(b)) + sum(1 for x, y in zip(a, b) if x != y)
                                 for a, b in zip(before, after))
    finally:
        try:
            t.close()
        except Exception:
            pass
    return out


def enumerate_cuts(hist, hid, next_id, files_every=7, byte_cuts=True, ref_base=None):
    """All cuts of one recorded history -> rows.  With `ref_base` (histories with clear()) a cut is
    compared with what the history completed up to the request it falls in means: entry
    ref_base + i of the shared table is `after[i]`; a cut in front of the first write of request i
    is the completed request i - 1."""
    rows = []
    writes = hist["writes"]
    n = len(writes)
    base = tempfile.mkdtemp(prefix="vt_crash_")
    try:
        def run(k, partial, missing_link=False):
            rid = next_id[0]
            next_id[0] += 1
            raw_t, raw_l = materialize(writes, k, partial)
            folder = os.path.join(base, "c%d" % rid)
            os.makedirs(folder)
            with open(os.path.join(folder, "lru_trie.dat"), "wb") as f:
                f.write(raw_t)
            if not missing_link:
                with open(os.path.join(folder, "link_store.dat"), "wb") as f:
                    f.write(raw_l)
            step = writes[k][4] if k < n else (writes[-1][4] if writes else 0)
            default, rules = hist["ram_at"][min(step, len(hist["ram_at"]) - 1)]
            res = probe(folder, default, rules)
            shutil.rmtree(folder, ignore_errors=True)
            part = bool(len(raw_t) % TRIE_BS or len(raw_l) % LINK_BS)
            href = hid + 1
            if ref_base is not None:
                if k >= n:
                    i = len(hist["after"]) - 1
                elif partial is None and (k == 0 or writes[k - 1][4] != step):
                    i = max(step - 1, 0)
                else:
                    i = step
                href = ref_base + min(i, len(hist["after"]) - 1) + 1
            row = {"id": rid, "hist": href, "k": k, "partial": part, "missing": missing_link,
                   "pbytes": partial or 0, "step": step}
            row.update(res)
            whole = not part and not missing_link
            if whole and (k % files_every == 0 or k == n):
                lid, tr, ls = decode_state(raw_t, raw_l)
                row["hasFiles"] = True
                row["trie"] = [block_record(b) for b in tr]
                row["ls"] = ls
            else:
                row["hasFiles"] = False
                row["trie"] = []
                row["ls"] = []
            rows.append(row)
        run(0, None, missing_link=True)           # died between creating the two files
        for k in range(n + 1):
            run(k, None)
            if byte_cuts and k < n and writes[k][2]:
                size = len(writes[k][3])
                for pb in sorted(set([1, size // 2, size - 1])):
                    if 0 < pb < size:
                        run(k, pb)
    finally:
        shutil.rmtree(base, ignore_errors=True)
    return rows
