------------------------------- MODULE CoopNet -------------------------------
(***************************************************************************)
(* The query half of property C16 on the design: a network query advanced  *)
(* in turns with writers.  lo / hi accumulate, over every moment of the    *)
(* run, the intersection / union of the answers the query would give if    *)
(* asked at that moment; when the query is done its answer must lie        *)
(* between them (NetBounds).                                               *)
(*                                                                         *)
(* With only crawl batches as writers NetBounds holds in every             *)
(* interleaving (MC_coopnet).  With a rule installation that re-attributes *)
(* pages to a new webentity TLC FINDS a violation (MC_coopnet_f11): the    *)
(* query resolves sources and targets at different moments - known         *)
(* finding F11, reproduced at design level.                                *)
(***************************************************************************)
EXTENDS TraphCoop, Queries, TLC

CONSTANTS Setup, Gens, DefRule
VARIABLES st, ram, gs, lo, hi
vars == <<st, ram, gs, lo, hi>>

Clean(s) == [s EXCEPT !.wlog = <<>>]
RECURSIVE SetupStore(_, _)
SetupStore(s, i) ==     \* a setup entry is a page [l, cr] or a crawled page with its links [l, cr, tgts]
  IF i > Len(Setup) THEN s
  ELSE IF "tgts" \in DOMAIN Setup[i]
       THEN SetupStore(IndexBatchCrawlReq(s, EmptyRam, DefRule, <<[src |-> Setup[i].l, tgts |-> Setup[i].tgts]>>).st, i + 1)
       ELSE SetupStore(PageStep(s, EmptyRam, DefRule, Setup[i].l, Setup[i].cr).st, i + 1)
Store0 == Clean(SetupStore(EmptyStore, 1))

(* the answer a finished (or drained) generator holds, as a set of items *)
Result(g) == IF g.kind \in {"qnet", "qnetslow"} THEN { <<e[1], e[2]>> : e \in g.graph }
             ELSE IF g.kind = "qtop" THEN { e.l : e \in SeqToSet(g.acc) }
             ELSE IF g.kind = "qpagelinks" THEN { <<e[1], e[2]>> : e \in SeqToSet(g.acc) }
             ELSE IF g.kind \in {"qlinks", "qchildren"} THEN g.acc
             ELSE SeqToSet(g.acc)

(* a query generator run alone to completion on store s (what the plain request does) *)
RECURSIVE Drain(_, _)
Drain(s, g) == IF g.done THEN g ELSE Drain(s, RunGen(s, EmptyRam, DefRule, g).g)

(* the answer the query would give if asked right now, as a set of items: declaratively where *)
(* Queries has the operator, else by draining a fresh copy of the generator                  *)
Ans(s, g) ==
  IF g.kind \in {"qnet", "qnetslow"} THEN { <<e[1], e[2]>> : e \in NetFast(s.trie, s.ls, g.out, g.auto) }
  ELSE IF g.kind = "qtop" THEN { e.l : e \in SeqToSet(TopBlocks(s.trie, s.ls, g.ps, 1000, g.depth)) }
  ELSE IF g.kind = "qpages" THEN SeqToSet(ConcatWeDfs(s.trie, g.ps, 1))          \* the pages of the webentity
  ELSE IF g.kind = "qchildren" THEN ChildrenBlocks(s.trie, g.weid, g.ps)
  ELSE IF g.kind = "qpagelinks"
       THEN { <<e[1], e[2]>> : e \in WeLinksBlocks(s.trie, s.ls, g.weid, g.ps, g.inb, g.int, g.out) }
  ELSE Result(Drain(s, g))
Queries == { i \in 1..Len(Gens) : Gens[i].kind \in {"qnet", "qpages", "qnetslow", "qtop", "qlinks", "qchildren", "qpagelinks"} }

Init ==
  /\ st = Store0 /\ ram = EmptyRam /\ gs = Gens
  /\ lo = [i \in Queries |-> Ans(Store0, Gens[i])]
  /\ hi = [i \in Queries |-> Ans(Store0, Gens[i])]

Advance(i) ==
  /\ ~gs[i].done
  /\ LET g    == gs[i]
         ram2 == IF g.kind = "rule" /\ g.phase = "start" THEN RamSet(ram, g.anchor, g.rule) ELSE ram
         r    == RunGen(st, ram2, DefRule, g)
         s2   == Clean(r.st)
     IN /\ st' = s2 /\ ram' = ram2 /\ gs' = [gs EXCEPT ![i] = r.g]
        \* a new moment: every query still running (or finishing right now) sees it
        /\ lo' = [q \in Queries |-> IF gs[q].done THEN lo[q] ELSE lo[q] \cap Ans(s2, Gens[q])]
        /\ hi' = [q \in Queries |-> IF gs[q].done THEN hi[q] ELSE hi[q] \cup Ans(s2, Gens[q])]

Next == \E i \in 1..Len(gs) : Advance(i)
Spec == Init /\ [][Next]_vars

NoFail == \A i \in 1..Len(gs) : gs[i].exc = ""
NetBounds ==
  \A q \in Queries : gs[q].done =>
    LET res == Result(gs[q]) IN lo[q] \subseteq res /\ res \subseteq hi[q]
NoExcess  == \A q \in Queries : gs[q].done => Result(gs[q]) \subseteq hi[q]     \* the side F11 violates
NoMissing == \A q \in Queries : gs[q].done => lo[q] \subseteq Result(gs[q])     \* the side F12 violates
(* a query that ran alone computes the declarative answer, ranks and weights included *)
AloneExact ==
  \A q \in Queries : (gs[q].done /\ \A i \in 1..Len(gs) : i # q => gs[i] = Gens[i]) =>
     IF gs[q].kind = "qtop" THEN gs[q].acc = TopBlocks(Store0.trie, Store0.ls, gs[q].ps, gs[q].k, gs[q].depth)
     ELSE IF gs[q].kind \in {"qnet", "qnetslow"} THEN gs[q].graph = NetFast(Store0.trie, Store0.ls, gs[q].out, gs[q].auto)
     ELSE IF gs[q].kind = "qpagelinks"
          THEN SeqToSet(gs[q].acc) = WeLinksBlocks(Store0.trie, Store0.ls, gs[q].weid, gs[q].ps, gs[q].inb, gs[q].int, gs[q].out)
               /\ Len(gs[q].acc) = Cardinality(SeqToSet(gs[q].acc))
     ELSE IF gs[q].kind = "qchildren" THEN gs[q].acc = ChildrenBlocks(Store0.trie, gs[q].weid, gs[q].ps)
     ELSE TRUE
=============================================================================
