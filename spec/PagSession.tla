----------------------------- MODULE PagSession -----------------------------
(***************************************************************************)
(* The second half of property C09 on the design: a pagination session     *)
(* over a webentity's pages (paginate_webentity_pages fed with its own     *)
(* tokens) INTERLEAVED with page insertions.  TraphMC!PaginationInv checks  *)
(* every page size and resume point on a fixed index; here the index       *)
(* changes between two calls, in every possible way the constants allow:   *)
(*                                                                         *)
(*   - the initial index: every ordered choice of NSetup pages among Pool  *)
(*     (the shape of the sibling trees depends on the insertion order),    *)
(*     optionally with a foreign webentity nested in the realm, declared   *)
(*     before or after the pages;                                          *)
(*   - every page size in Ks, crawled-only on and off;                     *)
(*   - between two calls, any page of Pool not yet present may be added    *)
(*     (at most MaxIns insertions per session), or a present one           *)
(*     re-submitted as crawled.                                            *)
(*                                                                         *)
(* The block machine is TraphImpl's (PageStep); the answers are Queries'   *)
(* PagPages, the very operator real answers are compared with (bind.pag).  *)
(***************************************************************************)
EXTENDS TraphImpl, Queries, TLC

CONSTANTS Pool,        \* set of page LRUs
          NSetup,      \* pages in the initial index
          Nested,      \* set of LRUs that may be declared a (foreign) webentity; {} for none
          Ps,          \* the prefixes given to the request, in the given order
          Ks,          \* page sizes
          MaxIns,      \* insertions per session
          DefRule,
          Mutant       \* "none"; self-test: "stale" feeds the previous token back, "ahead" the token of
                       \* the item after the last one returned - TLC must then find a repeat / a skip

VARIABLES st,       \* the two block files
          k, co,    \* the session's page size and crawled-only switch
          tok,      \* [has, ti, tpath]: the token to feed back
          seen,     \* LRUs returned so far, in order
          base,     \* pages of the webentity when the session started
          lastn,    \* size of the latest answer (-1: none yet)
          done, nins
vars == <<st, k, co, tok, seen, base, lastn, done, nins>>

Clean(s) == [s EXCEPT !.wlog = <<>>]
Crawled0(l) == l[Len(l)] % 2 = 0          \* a fixed crawled/uncrawled mix

RECURSIVE AddAll(_, _, _)
AddAll(s, ls, i) ==
  IF i > Len(ls) THEN s ELSE AddAll(PageStep(s, EmptyRam, DefRule, ls[i], Crawled0(ls[i])).st, ls, i + 1)

(* the pages of the webentity right now, as the unpaginated request lists them *)
AllRows(s, c) == PagPages(s.trie, Ps, 0, 0, FALSE, <<>>, c).pages
AllNow(s, c) == { AllRows(s, c)[j].l : j \in 1..Len(AllRows(s, c)) }

Orders == { f \in [1..NSetup -> Pool] : \A i, j \in 1..NSetup : i # j => f[i] # f[j] }

Init ==
  /\ \E f \in Orders : \E nest \in Nested \cup {<<>>} : \E early \in BOOLEAN :
       LET first == AddAll(EmptyStore, <<f[1]>>, 1)
           s1 == IF nest # <<>> /\ early THEN CreateWebentityReq(first, <<nest>>).st ELSE first
           s2 == AddAll(s1, f, 2)
           s3 == IF nest # <<>> /\ ~early THEN CreateWebentityReq(s2, <<nest>>).st ELSE s2
       IN st = Clean(s3)
  /\ k \in Ks /\ co \in BOOLEAN
  /\ tok = [has |-> FALSE, ti |-> 0, tpath |-> <<>>]
  /\ seen = <<>> /\ lastn = -1 /\ done = FALSE /\ nins = 0
  /\ base = AllNow(st, co)

Insert ==
  /\ ~done /\ nins < MaxIns
  /\ \E l \in Pool : \E c \in BOOLEAN :
       /\ (l \in PagesOf(st.trie) => c /\ l \notin CrawledOf(st.trie))     \* a re-submission must change something
       /\ st' = Clean(PageStep(st, EmptyRam, DefRule, l, c).st)
  /\ nins' = nins + 1
  /\ UNCHANGED <<k, co, tok, seen, base, lastn, done>>

PagNext ==
  /\ ~done
  /\ LET r == PagPages(st.trie, Ps, k, tok.ti, tok.has, tok.tpath, co) IN
       /\ seen' = seen \o [j \in 1..Len(r.pages) |-> r.pages[j].l]
       /\ lastn' = Len(r.pages)
       /\ done' = r.done
       /\ tok' = IF r.done THEN tok
                 ELSE IF Mutant = "stale" /\ tok.has THEN tok
                 ELSE IF Mutant = "ahead"
                      THEN LET r2 == PagPages(st.trie, Ps, k + 1, tok.ti, tok.has, tok.tpath, co) IN
                           IF r2.done THEN [has |-> TRUE, ti |-> r.ti, tpath |-> r.tpath]
                           ELSE [has |-> TRUE, ti |-> r2.ti, tpath |-> r2.tpath]
                 ELSE [has |-> TRUE, ti |-> r.ti, tpath |-> r.tpath]
  /\ UNCHANGED <<st, k, co, base, nins>>

Next == Insert \/ PagNext
Spec == Init /\ [][Next]_vars

(* ---- property C09, second sentence ---- *)
OwnIdx(p) == CHOOSE i \in 1..Len(Ps) :
               /\ IsPrefixOf(Ps[i], p)
               /\ \A j \in 1..Len(Ps) : IsPrefixOf(Ps[j], p) => Len(Ps[j]) <= Len(Ps[i])
TokenValid  == ~done => PagOK(st.trie, Ps, tok.ti, tok.has, tok.tpath)
NoRepeat    == \A i, j \in 1..Len(seen) : i # j => seen[i] # seen[j]
NothingSkipped == done => base \subseteq SeqToSet(seen)
NoInvention == SeqToSet(seen) \subseteq AllNow(st, co)
ExactSize   == (~done /\ lastn # -1) => lastn = k
FinalSize   == done => lastn <= k
Ordered     == \A j \in 1..(Len(seen) - 1) :
                 \/ OwnIdx(seen[j]) < OwnIdx(seen[j + 1])
                 \/ (OwnIdx(seen[j]) = OwnIdx(seen[j + 1]) /\ LruLess(seen[j], seen[j + 1]))
(* a session with no insertion is the static paging of TraphMC!PaginationInv *)
StaticExact == (done /\ nins = 0) => seen = [j \in 1..Len(AllRows(st, co)) |-> AllRows(st, co)[j].l]
Structure   == TstInv(st.trie, st.ls)
=============================================================================
