----------------------------- MODULE TraphCrash -----------------------------
(***************************************************************************)
(* Property C18 on the design: the process may die at any point of any     *)
(* write request, leaving exactly a PREFIX of the request's program-       *)
(* ordered write list in the two files (in-place block rewrites atomic,    *)
(* both files cut at the same program point).  For every history and every *)
(* cut, the torn files must be traversable and must mean a subset of what  *)
(* the completed history means.                                            *)
(*                                                                         *)
(* State: pre = store before the last request, st = store after it with    *)
(* st.wlog = the request's write list (with contents).  CrashSafe is an    *)
(* invariant quantifying over all cuts of that list.                       *)
(*                                                                         *)
(* clear() is a write request too, but it does not start with block        *)
(* writes: it re-creates the two files one after the other (events "XT",   *)
(* "XL" of the write list, in the order ClearOrder), then writes the       *)
(* header and installs the rules it is given.  The history is not monotone *)
(* across a clear, so a cut in front of the first event of a clear is      *)
(* compared with the history completed before it.  The trie holds the      *)
(* pointers into the link store and the link store holds none a traversal  *)
(* follows from itself: emptying the trie first leaves unreachable garbage,*)
(* emptying the link store first leaves dangling pointers (CrashSafe fails *)
(* with ClearOrder = <<"XL", "XT">>, configuration MC_crash_clearbug).     *)
(* Opening a folder with overwrite = True is the same write list issued by *)
(* the constructor.                                                        *)
(***************************************************************************)
EXTENDS TraphImpl, TraphAbs, Torn, TLC

CONSTANTS PageLrus, PrefixLrus, PairSeqs, CrawlBatches, AnchorRules, DefRule, InitRules, Ops, MaxLevel,
          ClearOrder       \* <<"XT", "XL">> in the code: the trie file is re-created first

VARIABLES pre, st, ram, nreq
vars == <<pre, st, ram, nreq>>

Clean(s) == [s EXCEPT !.wlog = <<>>]

ApplyWrite(s, w) ==
  CASE w.f = "T" -> [s EXCEPT !.trie = IF w.i = Len(@) + 1 THEN Append(@, w.b) ELSE [@ EXCEPT ![w.i] = w.b]]
    [] w.f = "L" -> [s EXCEPT !.ls = IF w.i = Len(@) + 1 THEN Append(@, w.b) ELSE [@ EXCEPT ![w.i] = w.b]]
    [] w.f = "H" -> [s EXCEPT !.lastId = w.b]
    [] w.f = "XT" -> [s EXCEPT !.trie = <<>>, !.lastId = 0]     \* the header lives in the trie file
    [] w.f = "XL" -> [s EXCEPT !.ls = <<>>]
    [] OTHER -> s
RECURSIVE ApplyPrefix(_, _, _, _)
ApplyPrefix(s, wl, j, k) == IF j > k THEN s ELSE ApplyPrefix(ApplyWrite(s, wl[j]), wl, j + 1, k)
Torn(k) == ApplyPrefix(Clean(pre), st.wlog, 1, k)

TornOK(t, full) ==
  /\ TornInv(t.trie, t.ls)
  /\ TornPages(t.trie) \subseteq PagesOf(full.trie)
  /\ LinkLeq(TornOut(t.trie, t.ls), OutLinksOf(full.trie, full.ls))
  /\ LinkLeq(TornIn(t.trie, t.ls), InLinksOf(full.trie, full.ls))
  /\ t.lastId <= full.lastId

IsClear == Len(st.wlog) > 0 /\ st.wlog[1].f \in {"XT", "XL"}
CrashSafe == \A k \in 0..Len(st.wlog) : TornOK(Torn(k), IF k = 0 /\ IsClear THEN pre ELSE st)
CutIsFull == Torn(Len(st.wlog)).trie = st.trie /\ Torn(Len(st.wlog)).ls = st.ls   \* sanity: all writes = the request

(***************************************************************************)
(* Histories                                                               *)
(***************************************************************************)
Init ==
  LET f == InstallRules(EmptyStore, EmptyRam, DefRule, InitRules, 1) IN
  /\ pre = EmptyStore /\ st = f.st /\ ram = f.ram /\ nreq = 0

Do(p) == /\ pre' = Clean(st) /\ st' = p.st

Request ==
  \/ /\ "AddPage" \in Ops
     /\ \E l \in PageLrus, cr \in BOOLEAN : Do(AddPageReq(Clean(st), ram, DefRule, l, cr)) /\ UNCHANGED ram
  \/ /\ "AddLinks" \in Ops
     /\ \E ps \in PairSeqs : Do(AddLinksReq(Clean(st), ram, DefRule, ps)) /\ UNCHANGED ram
  \/ /\ "IndexBatchCrawl" \in Ops
     /\ \E d \in CrawlBatches : Do(IndexBatchCrawlReq(Clean(st), ram, DefRule, d)) /\ UNCHANGED ram
  \/ /\ "CreateWe" \in Ops
     /\ \E p \in PrefixLrus : Do(CreateWebentityReq(Clean(st), <<p>>)) /\ UNCHANGED ram
  \/ /\ "RemovePrefix" \in Ops
     /\ \E p \in PrefixLrus : Do(RemovePrefixReq(Clean(st), p, 0)) /\ UNCHANGED ram
  \/ /\ "AddRule" \in Ops
     /\ \E ar \in AnchorRules :
          LET r == AddRuleReq(Clean(st), ram, DefRule, ar.anchor, ar.rule, TRUE) IN Do(r.res) /\ ram' = r.ram
  \/ /\ "Clear" \in Ops
     /\ \E rules \in {<<>>} \cup { <<ar>> : ar \in AnchorRules } :
          LET f  == FreshIndex(DefRule, rules)
              ev == [j \in 1..2 |-> [f |-> ClearOrder[j], i |-> 0, app |-> FALSE, b |-> 0]]
              h  == <<[f |-> "H", i |-> 0, app |-> FALSE, b |-> 0]>>
          IN /\ pre' = Clean(st)
             /\ st' = [f.st EXCEPT !.wlog = ev \o h \o @]
             /\ ram' = f.ram

Next == nreq < MaxLevel - 1 /\ nreq' = nreq + 1 /\ Request
Spec == Init /\ [][Next]_vars
=============================================================================
