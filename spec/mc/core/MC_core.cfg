SPECIFICATION Spec
CONSTANTS
  PageLrus <- mcPageLrus
  PrefixLrus <- mcPrefixLrus
  PairSeqs <- mcPairSeqs
  CrawlBatches <- mcCrawl
  AnchorRules <- mcAnchorRules
  DefRule <- Dom
  InitRules <- mcInitRules
  Ops <- mcOps
  ProbeLrus <- mcProbe
  MaxLevel = 4
INVARIANT ReportsAgree
INVARIANT Refines
INVARIANT Structure
INVARIANT Findable
INVARIANT DfsComplete
INVARIANT PageSet
INVARIANT LinkSymmetry
INVARIANT Resolution
INVARIANT OneIdPerPrefix
INVARIANT IdsBounded
INVARIANT FlagInv
INVARIANT Accounting
PROPERTY Monotone
CHECK_DEADLOCK FALSE
