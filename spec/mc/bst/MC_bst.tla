------------------------------- MODULE MC_bst -------------------------------
(* Five sibling stems (one of them two blocks long) and two stems below the   *)
(* middle one, inserted in EVERY order: every shape of a five-node sibling    *)
(* tree (chains, zig-zags, balanced), with a nested webentity in the middle.  *)
EXTENDS TraphMC
Dom == [k |-> "domain", n |-> 0]
\* 1 h:com| 2 h:ex| 3 h:www| 4 p:a| 5 p:b| 6 p:c<long>| 7 p:d| 8 p:e| 9 s:http| 10 s:https|
mcPageLrus   == { <<9,1,2,4>>, <<9,1,2,5>>, <<9,1,2,6>>, <<9,1,2,7>>, <<9,1,2,8>>, <<9,1,2,6,4>>, <<9,1,2,6,8>> }
mcPrefixLrus == { <<9,1,2,6>> }
mcPairSeqs   == { }
mcCrawl      == { }
mcAnchorRules == { }
mcInitRules  == << >>
mcOps        == { "AddPage", "CreateWe" }
mcProbe      == mcPageLrus \cup { <<9>>, <<9,1,2>>, <<9,1,2,4,4>>, <<9,1,2,7,8>>, <<10,1,2,6>> }
=============================================================================
