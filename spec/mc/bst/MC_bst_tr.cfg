SPECIFICATION Spec
CONSTANTS
  PageLrus <- mcPageLrus
  PrefixLrus <- mcPrefixLrus
  PairSeqs <- mcPairSeqs
  CrawlBatches <- mcCrawl
  AnchorRules <- mcAnchorRules
  DefRule <- Dom
  InitRules <- mcInitRules
  Ops <- mcOps
  ProbeLrus <- mcProbe
  MaxLevel = 5
  EmitT = TRUE
VIEW View
CHECK_DEADLOCK FALSE
