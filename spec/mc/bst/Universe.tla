------------------------------ MODULE Universe ------------------------------
(* Model-checking universe "bst": sibling trees of real size.  Ranks in the  *)
(* byte order of                                                            *)
(*   1 h:com|  2 h:ex|  3 h:www|  4 p:a|  5 p:b|  6 p:c<long, 2 blocks>|    *)
(*   7 p:d|  8 p:e|  9 s:http|  10 s:https|                                 *)
StemTab == <<
  [len |-> 6,  kind |-> "h", ok |-> TRUE, flip |-> 0, www |-> FALSE, local |-> FALSE],
  [len |-> 5,  kind |-> "h", ok |-> TRUE, flip |-> 0, www |-> FALSE, local |-> FALSE],
  [len |-> 6,  kind |-> "h", ok |-> TRUE, flip |-> 0, www |-> TRUE,  local |-> FALSE],
  [len |-> 4,  kind |-> "p", ok |-> TRUE, flip |-> 0, www |-> FALSE, local |-> FALSE],
  [len |-> 4,  kind |-> "p", ok |-> TRUE, flip |-> 0, www |-> FALSE, local |-> FALSE],
  [len |-> 80, kind |-> "p", ok |-> TRUE, flip |-> 0, www |-> FALSE, local |-> FALSE],
  [len |-> 4,  kind |-> "p", ok |-> TRUE, flip |-> 0, www |-> FALSE, local |-> FALSE],
  [len |-> 4,  kind |-> "p", ok |-> TRUE, flip |-> 0, www |-> FALSE, local |-> FALSE],
  [len |-> 7,  kind |-> "s", ok |-> TRUE, flip |-> 10, www |-> FALSE, local |-> FALSE],
  [len |-> 8,  kind |-> "s", ok |-> TRUE, flip |-> 9,  www |-> FALSE, local |-> FALSE] >>
WwwStem == 3
=============================================================================
