SPECIFICATION Spec
CONSTANTS
  PageLrus <- mcPageLrus
  PrefixLrus <- mcPrefixLrus
  PairSeqs <- mcPairSeqs
  CrawlBatches <- mcCrawl
  AnchorRules <- mcAnchorRules
  DefRule <- Dom
  InitRules <- mcInitRules
  Ops <- mcOps
  ProbeLrus <- mcProbe
  MaxLevel = 5
  EmitT = FALSE
INVARIANT ReportsAgree
INVARIANT Refines
INVARIANT Structure
INVARIANT Findable
INVARIANT DfsComplete
INVARIANT PageSet
INVARIANT LinkSymmetry
INVARIANT Resolution
INVARIANT OneIdPerPrefix
INVARIANT IdsBounded
INVARIANT FlagInv
INVARIANT Accounting
INVARIANT WePagesInv
INVARIANT NetworkInv
INVARIANT WeLinksInv
INVARIANT HierarchyInv
INVARIANT PaginationInv
INVARIANT PagLinksInv
INVARIANT TopInv
INVARIANT PageLinksInv
INVARIANT ScansInv
PROPERTY Monotone
VIEW View
CHECK_DEADLOCK FALSE
