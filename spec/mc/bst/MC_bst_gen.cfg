SPECIFICATION Spec
CONSTANTS
  PageLrus <- mcPageLrus
  PrefixLrus <- mcPrefixLrus
  PairSeqs <- mcPairSeqs
  CrawlBatches <- mcCrawl
  AnchorRules <- mcAnchorRules
  DefRule <- Dom
  InitRules <- mcInitRules
  Ops <- mcOps
  ProbeLrus <- mcProbe
  MaxLevel = 5
  EmitT = FALSE
INVARIANT EmitAll
VIEW View
CHECK_DEADLOCK FALSE
