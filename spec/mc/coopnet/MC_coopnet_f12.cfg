SPECIFICATION Spec
CONSTANTS
  Setup <- mcSetupF12
  Gens <- mcGensF12
  DefRule <- Dom
  Bug = "none"
INVARIANT NoFail
INVARIANT NoExcess
INVARIANT NoMissing
INVARIANT AloneExact
CHECK_DEADLOCK FALSE
