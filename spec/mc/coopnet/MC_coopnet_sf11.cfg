SPECIFICATION Spec
CONSTANTS
  Setup <- mcSetup
  Gens <- mcGensSF11
  DefRule <- Dom
  Bug = "none"
INVARIANT NoFail
INVARIANT NetBounds
INVARIANT AloneExact
CHECK_DEADLOCK FALSE
