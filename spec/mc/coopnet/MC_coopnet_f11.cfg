SPECIFICATION Spec
CONSTANTS
  Setup <- mcSetup
  Gens <- mcGensF11
  DefRule <- Dom
  Bug = "none"
INVARIANT NoFail
INVARIANT NetBounds
CHECK_DEADLOCK FALSE
