SPECIFICATION Spec
CONSTANTS
  Setup <- mcSetup
  Gens <- mcGensChildren
  DefRule <- Dom
  Bug = "none"
INVARIANT NoFail
INVARIANT NetBounds
INVARIANT AloneExact
CHECK_DEADLOCK FALSE
