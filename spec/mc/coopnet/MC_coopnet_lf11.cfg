SPECIFICATION Spec
CONSTANTS
  Setup <- mcSetup
  Gens <- mcGensLinksF11
  DefRule <- Dom
  Bug = "none"
INVARIANT NoFail
INVARIANT NetBounds
INVARIANT AloneExact
CHECK_DEADLOCK FALSE
