------------------------------ MODULE MC_coopnet ------------------------------
EXTENDS CoopNet
Dom == [k |-> "domain", n |-> 0]
Path1 == [k |-> "path", n |-> 1]
\* 1 h:com| 2 h:ex| 3 h:www| 4 p:a| 5 p:<long, 2 blocks>| 6 s:http| 7 s:https|
A == <<6,1,2>>
B == <<6,1,2,4>>
C == <<6,1,2,4,4>>
D == <<6,1,2,5>>
E == <<7,1,2,4>>
\* B -> C is a link inside the domain webentity; the rule on A (path1) moves B and C together
\* into a new webentity: the link is internal at every moment
mcSetup == << [l |-> B, cr |-> TRUE], [l |-> C, cr |-> FALSE], [l |-> D, cr |-> FALSE] >>
Links0 == << [src |-> B, tgts |-> <<C, D>>], [src |-> D, tgts |-> <<B>>] >>
mcGensQ   == << NewCrawl(Links0), NewNetQuery(TRUE, FALSE) >>
mcGensF11 == << NewCrawl(Links0), NewRule(A, Path1), NewNetQuery(TRUE, FALSE) >>
=============================================================================
