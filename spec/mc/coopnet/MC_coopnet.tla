------------------------------ MODULE MC_coopnet ------------------------------
EXTENDS CoopNet
Dom == [k |-> "domain", n |-> 0]
Path1 == [k |-> "path", n |-> 1]
\* 1 h:com| 2 h:ex| 3 h:www| 4 p:a| 5 p:<long, 2 blocks>| 6 s:http| 7 s:https|
A == <<6,1,2>>
B == <<6,1,2,4>>
C == <<6,1,2,4,4>>
D == <<6,1,2,5>>
E == <<7,1,2,4>>
\* B -> C is a link inside the domain webentity; the rule on A (path1) moves B and C together
\* into a new webentity: the link is internal at every moment
mcSetup == << [l |-> B, cr |-> TRUE], [l |-> C, cr |-> FALSE], [l |-> D, cr |-> FALSE] >>
Links0 == << [src |-> B, tgts |-> <<C, D>>], [src |-> D, tgts |-> <<B>>] >>
mcGensQ   == << NewCrawl(Links0), NewNetQuery(TRUE, FALSE) >>
\* page query of the domain webentity (prefixes A and its variations) while a rule creates a webentity
\* at B (path1 below A) and a crawl adds C below B
PsA == << <<6,1,2>>, <<7,1,2>>, <<6,1,2,3>>, <<7,1,2,3>> >>
\* the query passes B (not yet a webentity prefix) and keeps its child subtree on its stack; then B is
\* attached to a new webentity and Z is created in that subtree: the query still reports Z
Z == <<6,1,2,4,5>>
mcSetupP == << [l |-> B, cr |-> TRUE], [l |-> C, cr |-> FALSE], [l |-> D, cr |-> FALSE] >>
mcGensPQ   == << NewCrawl(<< [src |-> D, tgts |-> <<Z>>] >>), NewPagesQuery(PsA, FALSE) >>
mcGensPF11 == << NewCrawl(<< [src |-> D, tgts |-> <<Z>>] >>), NewRule(A, Path1), NewPagesQuery(PsA, FALSE) >>
mcGensSlow  == << NewCrawl(Links0), NewNetSlowQuery(TRUE, FALSE) >>
mcGensSlowI == << NewCrawl(Links0), NewNetSlowQuery(FALSE, TRUE) >>
mcGensSF11  == << NewCrawl(Links0), NewRule(A, Path1), NewNetSlowQuery(TRUE, FALSE) >>
mcGensTop   == << NewCrawl(Links0), NewCrawl(<< [src |-> D, tgts |-> <<Z>>] >>), NewTopQuery(PsA, 2, Unlimited) >>
mcGensTopAll == << NewCrawl(Links0), NewCrawl(<< [src |-> D, tgts |-> <<Z>>] >>), NewTopQuery(PsA, 1000, 1) >>
\* setup with links already there, so that the link queries have something to walk from the start
mcGensLinks    == << NewCrawl(Links0), NewCrawl(<< [src |-> C, tgts |-> <<E, B>>] >>), NewLinksQuery(PsA, TRUE) >>
mcGensLinksIn  == << NewCrawl(Links0), NewCrawl(<< [src |-> C, tgts |-> <<E, B>>] >>), NewLinksQuery(PsA, FALSE) >>
mcGensPageLinks == << NewCrawl(Links0), NewCrawl(<< [src |-> C, tgts |-> <<E, B>>] >>), NewPageLinksQuery(1, PsA, TRUE, TRUE, TRUE) >>
mcGensChildren == << NewCrawl(<< [src |-> D, tgts |-> <<Z>>] >>), NewRule(A, Path1), NewChildrenQuery(1, PsA) >>
mcGensLinksF11 == << NewCrawl(Links0), NewRule(A, Path1), NewLinksQuery(PsA, TRUE) >>
mcGensPageLinksF11 == << NewCrawl(Links0), NewRule(A, Path1), NewPageLinksQuery(1, PsA, TRUE, TRUE, TRUE) >>
\* F12 at design level: D links to E (https side) from the start; a crawl adds D -> A (the http home page);
\* a rule on the https site moves E to a new webentity.  The citing query of the domain webentity walks the
\* http realm first: it can pass A before the new link exists and reach E after it has left the webentity -
\* and miss webentity 1 (D's own), which cited it at every moment
\* (X, a page without webentity, links to D: the query has a yield point at D, between C and E)
X == <<6,1>>
mcSetupF12 == << [l |-> C, cr |-> FALSE], [l |-> X, cr |-> TRUE, tgts |-> <<D>>], [l |-> D, cr |-> TRUE, tgts |-> <<E>>] >>
mcGensF12  == << NewCrawl(<< [src |-> D, tgts |-> <<A>>] >>), NewRule(<<7,1,2>>, Path1), NewLinksQuery(PsA, FALSE) >>
mcGensF11 == << NewCrawl(Links0), NewRule(A, Path1), NewNetQuery(TRUE, FALSE) >>
=============================================================================
