SPECIFICATION Spec
CONSTANTS
  Setup <- mcSetup
  Gens <- mcGensSlow
  DefRule <- Dom
  Bug = "none"
INVARIANT NoFail
INVARIANT NetBounds
INVARIANT AloneExact
CHECK_DEADLOCK FALSE
