SPECIFICATION Spec
CONSTANTS
  Setup <- mcSetup
  Gens <- mcGensPageLinksF11
  DefRule <- Dom
  Bug = "none"
INVARIANT NoFail
INVARIANT NetBounds
INVARIANT AloneExact
CHECK_DEADLOCK FALSE
