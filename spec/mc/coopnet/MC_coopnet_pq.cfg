SPECIFICATION Spec
CONSTANTS
  Setup <- mcSetupP
  Gens <- mcGensPQ
  DefRule <- Dom
  Bug = "none"
INVARIANT NoFail
INVARIANT NetBounds
CHECK_DEADLOCK FALSE
