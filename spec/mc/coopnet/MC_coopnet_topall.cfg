SPECIFICATION Spec
CONSTANTS
  Setup <- mcSetup
  Gens <- mcGensTopAll
  DefRule <- Dom
  Bug = "none"
INVARIANT NoFail
INVARIANT NetBounds
INVARIANT AloneExact
CHECK_DEADLOCK FALSE
