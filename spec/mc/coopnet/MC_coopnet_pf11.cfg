SPECIFICATION Spec
CONSTANTS
  Setup <- mcSetupP
  Gens <- mcGensPF11
  DefRule <- Dom
  Bug = "none"
INVARIANT NoFail
INVARIANT NetBounds
CHECK_DEADLOCK FALSE
