SPECIFICATION Spec
CONSTANTS
  Setup <- mcSetup
  Gens <- mcGensQ
  DefRule <- Dom
  Bug = "none"
INVARIANT NoFail
INVARIANT NetBounds
CHECK_DEADLOCK FALSE
