SPECIFICATION Spec
CONSTANTS
  Setup <- mcSetup
  Gens <- mcGensTop
  DefRule <- Dom
  Bug = "none"
INVARIANT NoFail
INVARIANT AloneExact
CHECK_DEADLOCK FALSE
