SPECIFICATION Spec
CONSTANTS
  PageLrus <- mcPageLrus
  PrefixLrus <- mcPrefixLrus
  PairSeqs <- mcPairSeqs
  CrawlBatches <- mcCrawl
  AnchorRules <- mcAnchorRules
  DefRule <- Dom
  InitRules <- mcInitRules
  Ops <- mcOpsClear
  MaxLevel = 4
  ClearOrder <- mcClearOrder
INVARIANT CrashSafe
INVARIANT CutIsFull
CHECK_DEADLOCK FALSE
