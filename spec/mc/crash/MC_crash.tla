------------------------------- MODULE MC_crash -------------------------------
EXTENDS TraphCrash
Dom == [k |-> "domain", n |-> 0]
Path1 == [k |-> "path", n |-> 1]
\* 1 h:com| 2 h:ex| 3 h:www| 4 p:a| 5 p:<long, 2 blocks>| 6 s:http| 7 s:https|
mcPageLrus   == { <<6,1,2>>, <<6,1,2,4>>, <<6,1,2,5>>, <<6,1,2,3,4>>, <<7,1,2,5>> }
mcPrefixLrus == { <<6,1,2>>, <<6,1,2,5>> }
mcPairSeqs   == { << <<<<6,1,2,4>>, <<6,1,2,5>>>> >>,
                  << <<<<6,1,2,5>>, <<6,1,2,4>>>>, <<<<6,1,2,5>>, <<6,1,2,5>>>> >> }
mcCrawl      == { << [src |-> <<6,1,2>>, tgts |-> << <<6,1,2,5>>, <<6,1,2>> >>],
                     [src |-> <<6,1,2,5>>, tgts |-> << <<6,1,2>> >>] >> }
mcAnchorRules == { [anchor |-> <<6,1,2>>, rule |-> Path1] }
mcInitRules  == << >>
mcClearOrder    == <<"XT", "XL">>      \* traph.py: the trie file is re-created first
mcClearOrderBug == <<"XL", "XT">>      \* mutant: CrashSafe must fail (MC_crash_clearbug.cfg)
mcOpsClear   == { "AddPage", "AddLinks", "IndexBatchCrawl", "CreateWe", "AddRule", "Clear" }
mcOps        == { "AddPage", "AddLinks", "IndexBatchCrawl", "CreateWe", "RemovePrefix", "AddRule" }
=============================================================================
