SPECIFICATION Spec
CONSTANTS
  PageLrus <- mcPageLrus
  PrefixLrus <- mcPrefixLrus
  PairSeqs <- mcPairSeqs
  CrawlBatches <- mcCrawl
  AnchorRules <- mcAnchorRules
  DefRule <- Dom
  InitRules <- mcInitRules
  Ops <- mcOps
  MaxLevel = 4
INVARIANT CrashSafe
INVARIANT CutIsFull
CHECK_DEADLOCK FALSE
