------------------------------- MODULE MC_links -------------------------------
(* Link batches: repeats, self links, pages that are source and target in one  *)
(* batch, empty target lists, new pages hanging off pages of the same batch.   *)
EXTENDS TraphMC
Dom == [k |-> "domain", n |-> 0]
Path1 == [k |-> "path", n |-> 1]
\* 1 h:com| 2 h:ex| 3 h:www| 4 p:a| 5 p:<long>| 6 s:http| 7 s:https|
A == <<6,1,2>>
B == <<6,1,2,4>>
C == <<6,1,2,4,4>>
D == <<6,1,2,5>>
E == <<7,1,2,4>>
mcPageLrus   == { A, B, D }
mcPrefixLrus == { <<6,1,2,4>> }
mcPairSeqs   == { << <<A, B>> >>, << <<A, B>>, <<A, B>>, <<B, A>> >>, << <<B, B>> >>, << <<D, C>>, <<C, E>> >>,
                  << <<E, A>>, <<A, E>>, <<E, E>> >> }
mcCrawl      == { << [src |-> A, tgts |-> <<B, C, D>>], [src |-> B, tgts |-> <<A>>] >>,
                  << [src |-> B, tgts |-> <<>>] >>,
                  << [src |-> D, tgts |-> <<D, B, B>>], [src |-> C, tgts |-> <<B>>] >>,
                  << [src |-> E, tgts |-> <<A, C>>], [src |-> A, tgts |-> <<E>>], [src |-> C, tgts |-> <<C>>] >> }
mcAnchorRules == { }
mcInitRules  == << >>
mcOps        == { "AddPage", "AddLinks", "IndexBatchCrawl", "CreateWe", "RemovePrefix" }
mcProbe      == { A, B, C, D, E, <<6>>, <<7,1>> }
=============================================================================
