------------------------------- MODULE MC_var -------------------------------
(***************************************************************************)
(* Property C17 on the token-level definition of the variations: the state *)
(* space IS the LRU grammar (scheme, optional port, 0-3 contiguous host    *)
(* stems not ending in two www, then 0-2 arbitrary path/query stems, among *)
(* them stems whose text contains "s:http" / "h:www").  Every law is an    *)
(* invariant.  The grammar is closed under variation (Closure).            *)
(***************************************************************************)
EXTENDS Lru, TLC

VARIABLE l
MaxHosts == 3
MaxRest == 2

Schemes == { s \in 1..NStems : SKind(s) = "s" }
Ports   == { s \in 1..NStems : SKind(s) = "t" }
Hosts   == { s \in 1..NStems : SKind(s) = "h" }
Rest    == { s \in 1..NStems : SKind(s) \in {"p", "o"} }

RestCount(x) == Len(x) - (HostStart(x) - 1) - HostCount(x)
EndsInTwoWww(x) ==
  LET n == HostCount(x)  last == HostStart(x) + n - 1 IN n >= 2 /\ SWww(x[last]) /\ SWww(x[last - 1])
InGrammar(x) ==
  /\ Len(x) >= 1 /\ x[1] \in Schemes
  /\ \A i \in 2..Len(x) : x[i] \notin Schemes
  /\ \A i \in 3..Len(x) : x[i] \notin Ports
  /\ \A i \in (HostStart(x) + HostCount(x))..Len(x) : x[i] \in Rest
  /\ ~EndsInTwoWww(x)

Init == l \in { <<s>> : s \in Schemes }
Next ==
  \/ /\ Len(l) = 1 /\ \E p \in Ports : l' = Append(l, p)
  \/ /\ RestCount(l) = 0 /\ HostCount(l) < MaxHosts + 1
     /\ \E h \in Hosts : l' = Append(l, h)
  \/ /\ RestCount(l) < MaxRest
     /\ \E x \in Rest : l' = Append(l, x)
Spec == Init /\ [][Next]_l

(* hosts may transiently end in two www while the LRU is being spelled; the *)
(* laws are claimed for grammar members only                                *)
Law(P(_)) == (InGrammar(l) /\ HostCount(l) <= MaxHosts) => P(l)
Total     == Law(LAMBDA x : Len(Variations(x)) >= 1)
HeadSelf  == Law(VarHeadIsSelf)
NoDup     == Law(VarNoDup)
Closed    == Law(VarClosed)
OnlySchemeWww == Law(VarOnlySchemeWww)
Closure   == Law(LAMBDA x : \A v \in VariationSet(x) : InGrammar(v))
AtMostFour == Law(LAMBDA x : Len(Variations(x)) <= 4)
=============================================================================
