SPECIFICATION Spec
INVARIANT Total
INVARIANT HeadSelf
INVARIANT NoDup
INVARIANT Closed
INVARIANT OnlySchemeWww
INVARIANT Closure
INVARIANT AtMostFour
CHECK_DEADLOCK FALSE
