------------------------------ MODULE Universe ------------------------------
(* Universe "var": the LRU grammar of property C17, ranks in byte order of   *)
(*  1 h:com|  2 h:ex|  3 h:localhost|  4 h:www|  5 p:a|  6 p:s:http|        *)
(*  7 q:h:www|  8 s:ftp|  9 s:http|  10 s:https|  11 t:80|                   *)
MkStem(len, kind, flip, www, local) == [len |-> len, kind |-> kind, ok |-> kind # "o", flip |-> flip, www |-> www, local |-> local]
StemTab == <<
  MkStem(6, "h", 0, FALSE, FALSE), MkStem(5, "h", 0, FALSE, FALSE), MkStem(12, "h", 0, FALSE, TRUE), MkStem(6, "h", 0, TRUE, FALSE),
  MkStem(4, "p", 0, FALSE, FALSE), MkStem(9, "p", 0, FALSE, FALSE), MkStem(8, "o", 0, FALSE, FALSE),
  MkStem(6, "s", 0, FALSE, FALSE), MkStem(7, "s", 10, FALSE, FALSE), MkStem(8, "s", 9, FALSE, FALSE), MkStem(5, "t", 0, FALSE, FALSE) >>
WwwStem == 4
=============================================================================
