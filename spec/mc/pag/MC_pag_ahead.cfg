SPECIFICATION Spec
CONSTANTS
  Pool <- mcPoolQ
  NSetup = 3
  Nested <- mcNested
  Ps <- mcPs
  Ks = {1, 2}
  MaxIns = 2
  DefRule <- Dom
  Mutant = "ahead"
INVARIANT TokenValid
INVARIANT NoRepeat
INVARIANT NothingSkipped
INVARIANT NoInvention
INVARIANT ExactSize
INVARIANT FinalSize
INVARIANT Ordered
INVARIANT StaticExact
INVARIANT Structure
CHECK_DEADLOCK FALSE
