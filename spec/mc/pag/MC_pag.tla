------------------------------- MODULE MC_pag -------------------------------
EXTENDS PagSession
Dom == [k |-> "domain", n |-> 0]
\* 1 h:com| 2 h:ex| 3 h:www| 4 p:a| 5 p:b| 6 p:c| 7 p:d| 8 s:http| 9 s:https|
Home == <<8,1,2>>
Pa  == <<8,1,2,4>>
Pb  == <<8,1,2,5>>
Pc  == <<8,1,2,6>>
Pd  == <<8,1,2,7>>
Pbd == <<8,1,2,5,7>>
Pba == <<8,1,2,5,4>>
Wc  == <<8,1,2,3,6>>        \* under the www variation: another prefix of the same webentity
Sa  == <<9,1,2,4>>          \* under the https variation
mcPool   == { Home, Pa, Pb, Pc, Pd, Pbd, Pba, Wc, Sa }
mcPoolQ  == { Home, Pa, Pb, Pc, Pbd, Wc }
mcNested == { Pb, Pc }
mcPs     == << <<8,1,2>>, <<9,1,2>>, <<8,1,2,3>>, <<9,1,2,3>> >>
=============================================================================
