-------------------------------- MODULE MC_wesub --------------------------------
(* Webentity edits and creation rules over nested and sibling prefixes. *)
EXTENDS TraphMC
Dom == [k |-> "domain", n |-> 0]
Sub == [k |-> "subdomain", n |-> 0]
Path1 == [k |-> "path", n |-> 1]
Path2 == [k |-> "path", n |-> 2]
\* 1 h:com| 2 h:ex| 3 h:www| 4 p:a| 5 p:<long>| 6 s:http| 7 s:https|
mcPageLrus   == { <<6,1,2,4>>, <<6,1,2,3,4>>, <<6,1,2,4,5>>, <<7,1,2>> }
mcPrefixLrus == { <<6,1,2>>, <<6,1,2,3>>, <<6,1,2,4>>, <<6,1>>, <<7,1,2>> }
mcPairSeqs   == { }
mcCrawl      == { }
mcAnchorRules == { [anchor |-> <<6,1,2>>, rule |-> Path1], [anchor |-> <<6,1>>, rule |-> Sub],
                   [anchor |-> <<6,1,2,4>>, rule |-> Path2] }
mcInitRules  == << [anchor |-> <<7,1,2>>, rule |-> Path1] >>
mcOps        == { "AddPage", "CreateWe", "CreateWe2", "DeleteWe", "AddPrefix", "RemovePrefix", "MovePrefix",
                  "AddRule", "RemoveRule" }
mcProbe      == mcPageLrus \cup mcPrefixLrus \cup { <<6>>, <<6,2>>, <<6,1,2,4,4>>, <<7,1,2,3>>, <<6,1,2,3,4,4>> }
=============================================================================
