------------------------------ MODULE Universe ------------------------------
(* Model-checking universe "core": 7 stems, ranks in the byte order of       *)
(*   1 h:com|  2 h:ex|  3 h:www|  4 p:a|  5 p:<long, 2 blocks>|             *)
(*   6 s:http|  7 s:https|                                                  *)
StemTab == <<
  [len |-> 6,  kind |-> "h", ok |-> TRUE, flip |-> 0, www |-> FALSE, local |-> FALSE],
  [len |-> 5,  kind |-> "h", ok |-> TRUE, flip |-> 0, www |-> FALSE, local |-> FALSE],
  [len |-> 6,  kind |-> "h", ok |-> TRUE, flip |-> 0, www |-> TRUE,  local |-> FALSE],
  [len |-> 4,  kind |-> "p", ok |-> TRUE, flip |-> 0, www |-> FALSE, local |-> FALSE],
  [len |-> 80, kind |-> "p", ok |-> TRUE, flip |-> 0, www |-> FALSE, local |-> FALSE],
  [len |-> 7,  kind |-> "s", ok |-> TRUE, flip |-> 7, www |-> FALSE, local |-> FALSE],
  [len |-> 8,  kind |-> "s", ok |-> TRUE, flip |-> 6, www |-> FALSE, local |-> FALSE] >>
WwwStem == 3
=============================================================================
