------------------------------- MODULE MC_life -------------------------------
(* Life cycle: close / reopen (with or without a forgotten rule) and clear, inserted at every *)
(* position of small histories of page insertions, webentity edits and rule installations.   *)
EXTENDS TraphMC
Dom == [k |-> "domain", n |-> 0]
Sub == [k |-> "subdomain", n |-> 0]
Path1 == [k |-> "path", n |-> 1]
\* 1 h:com| 2 h:ex| 3 h:www| 4 p:a| 5 p:<long>| 6 s:http| 7 s:https|
mcPageLrus   == { <<6,1,2,4>>, <<6,1,2,3,4>>, <<6,1,2,4,5>>, <<7,1,2>> }
mcPrefixLrus == { <<6,1,2,4>>, <<6,1>> }
mcPairSeqs   == { << <<<<6,1,2,4>>, <<7,1,2>>>> >> }
mcCrawl      == { }
mcAnchorRules == { [anchor |-> <<6,1,2>>, rule |-> Path1], [anchor |-> <<6,1>>, rule |-> Sub] }
mcInitRules  == << [anchor |-> <<7,1,2>>, rule |-> Path1] >>
mcOps        == { "AddPage", "AddLinks", "CreateWe", "DeleteWe", "AddRule", "RemoveRule", "Reopen", "Clear" }
mcProbe      == mcPageLrus \cup mcPrefixLrus \cup { <<6>>, <<6,1,2,4,4>>, <<7,1,2,3>> }
=============================================================================
