---- MODULE Universe ----
StemTab == << [len |-> 7, kind |-> "s", ok |-> TRUE, flip |-> 0, www |-> FALSE, local |-> FALSE],
              [len |-> 80, kind |-> "h", ok |-> TRUE, flip |-> 0, www |-> FALSE, local |-> FALSE],
              [len |-> 6, kind |-> "h", ok |-> TRUE, flip |-> 0, www |-> FALSE, local |-> FALSE] >>
WwwStem == 0
====
