INIT Init
NEXT Next
