---- MODULE Smoke ----
EXTENDS TraphImpl, TLC
Dom == [k |-> "domain"]
s1 == AddPageReq(EmptyStore, EmptyRam, Dom, <<1,2,3>>, FALSE)
s2 == AddPageReq(s1.st, EmptyRam, Dom, <<1,3>>, TRUE)
s3 == AddLinksReq(s2.st, EmptyRam, Dom, << <<<<1,2,3>>, <<1,3>>>>, <<<<1,2,3>>, <<1,2,1>>>> >>)
ASSUME PrintT(s1)
ASSUME PrintT(s2.st.trie)
ASSUME PrintT(s3)
ASSUME PrintT(TstInvFailure(s3.st.trie, s3.st.ls))
ASSUME PrintT(PagesOf(s3.st.trie))
ASSUME PrintT(OutLinksOf(s3.st.trie, s3.st.ls))
ASSUME PrintT(DfsRoot(s3.st.trie))
VARIABLE x
Init == x = 0
Next == UNCHANGED x
====
