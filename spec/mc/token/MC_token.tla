------------------------------ MODULE MC_token ------------------------------
(* Every path up to MaxLen moves, grown one move at a time as the traversal does. *)
EXTENDS Token, TLC
CONSTANT MaxLen
VARIABLE path
Init == path = <<>>
Next == Len(path) < MaxLen /\ \E m \in Moves : path' = Append(path, m)
Spec == Init /\ [][Next]_path

RoundTrip   == Decode(Encode(path)) = path
Canonical   == LET t == Encode(path) IN
               /\ WellFormed(t) /\ IsPathText(t)
               /\ (path # <<>> => t[1] # 0)                       \* no leading zero digit
               /\ Len(t) = IF path = <<>> THEN 1 ELSE (Len(path) + 2) \div 3
SameInteger == Len(path) <= 15 => TextInt(Encode(path)) = PathInt(path)   \* where 32 bits suffice
(* the encoding of the next move extends the integer as base4_append does *)
Appending   == [][ Len(path') <= 15 => PathInt(path') = 4 * PathInt(path) + path'[Len(path')] ]_path
=============================================================================
