SPECIFICATION Spec
CONSTANT MaxLen = 9
INVARIANT RoundTrip
INVARIANT Canonical
INVARIANT SameInteger
PROPERTY Appending
CHECK_DEADLOCK FALSE
