SPECIFICATION Spec
CONSTANTS
  Setup <- mcSetup
  Gens <- mcGens2
  DefRule <- Dom
  Bug = "NoRefreshOut"
INVARIANT NoFail
INVARIANT Structure
INVARIANT Final
PROPERTY Growing
CHECK_DEADLOCK FALSE
