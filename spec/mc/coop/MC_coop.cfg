SPECIFICATION Spec
CONSTANTS
  Setup <- mcSetup
  Gens <- mcGens
  DefRule <- Dom
  Bug = "none"
INVARIANT NoFail
INVARIANT Structure
INVARIANT Final
PROPERTY Growing
CHECK_DEADLOCK FALSE
