------------------------------- MODULE MC_coop -------------------------------
EXTENDS CoopMC
Dom == [k |-> "domain", n |-> 0]
Path1 == [k |-> "path", n |-> 1]
\* 1 h:com| 2 h:ex| 3 h:www| 4 p:a| 5 p:<long, 2 blocks>| 6 s:http| 7 s:https|
A == <<6,1,2>>        \* home
B == <<6,1,2,4>>      \* home / a
C == <<6,1,2,4,4>>    \* home / a / a   (first child of B)
D == <<6,1,2,5>>      \* home / long     (BST sibling of B)
E == <<7,1,2,4>>      \* other scheme
mcSetup == << [l |-> B, cr |-> TRUE] >>
mcGens == << NewCrawl(<< [src |-> A, tgts |-> <<B, C, D>>], [src |-> B, tgts |-> <<A>>] >>),
             NewCrawl(<< [src |-> D, tgts |-> <<C, E>>], [src |-> C, tgts |-> <<B, B>>] >>),
             NewRule(A, Path1) >>
mcGens2 == SubSeq(mcGens, 1, 2)
=============================================================================
