-------------------------------- MODULE Torn --------------------------------
(***************************************************************************)
(* What a torn pair of files (a prefix of a write history) must still      *)
(* satisfy so that it can be traversed, and what it then reports.          *)
(* Used by TraphCrash (all cuts of all small histories, in the model) and  *)
(* by CrashRows (cuts of real write logs materialized and reopened by the  *)
(* real code).                                                             *)
(***************************************************************************)
EXTENDS Blocks

(***************************************************************************)
(* What a torn pair of files must still satisfy                            *)
(***************************************************************************)
Complete(tr, b) ==      \* head b has all the tail blocks its stem needs
  LET n == NBlocks(tr[b].s) IN
  /\ b + n - 1 <= Len(tr)
  /\ \A c \in 1..(n - 1) : tr[b + c].t /\ tr[b + c].s = tr[b].s /\ tr[b + c].c = c

RECURSIVE ReachFrom(_, _)
ReachFrom(tr, b) ==     \* blocks reachable through left / right / child pointers
  IF b = 0 THEN {} ELSE {b} \cup ReachFrom(tr, tr[b].l) \cup ReachFrom(tr, tr[b].r) \cup ReachFrom(tr, tr[b].ch)
Reach(tr) == IF Len(tr) = 0 THEN {} ELSE ReachFrom(tr, 1)

TornInv(tr, ls) ==
  LET R == Reach(tr)
      U == Heads(tr) \ R          \* heads no pointer leads to
  IN /\ \A b \in R : /\ IsHead(tr, b) /\ Complete(tr, b)
                     /\ \A p \in {tr[b].l, tr[b].r, tr[b].ch, tr[b].pa} : p = 0 \/ IsHead(tr, p)
                     /\ tr[b].o \in 0..Len(ls) /\ tr[b].i \in 0..Len(ls)
     /\ (Len(tr) > 0 /\ 1 \in R) => BstOK(tr, 1, 0, NStems + 1, 0)
     /\ \A b \in R : tr[b].ch # 0 => BstOK(tr, tr[b].ch, 0, NStems + 1, b)
     \* at most one node is not yet linked, and nothing follows it
     /\ Cardinality(U) <= 1
     /\ \A b \in U : \A x \in (b + 1)..Len(tr) : tr[x].t /\ tr[x].s = tr[b].s
     \* every link block names an existing node -- unless the trie file has just been re-created
     \* empty by clear(): the old link store is then unreachable garbage until it is emptied too
     /\ Len(tr) = 0 \/ \A k \in 1..Len(ls) : IsHead(tr, ls[k].tg) /\ ls[k].pv \in 0..(k - 1)

(* the pages / links a traversal of the torn files reports *)
TornPages(tr) == { Windup(tr, b) : b \in { x \in Reach(tr) : tr[x].pg } }
TornOut(tr, ls) ==
  UNION { LET w == Weighted(ls, tr[b].o) IN
          { <<Windup(tr, b), Windup(tr, w[j][1]), w[j][2]>> : j \in 1..Len(w) }
          : b \in { x \in Reach(tr) : tr[x].pg /\ tr[x].o # 0 } }
TornIn(tr, ls) ==
  UNION { LET w == Weighted(ls, tr[b].i) IN
          { <<Windup(tr, w[j][1]), Windup(tr, b), w[j][2]>> : j \in 1..Len(w) }
          : b \in { x \in Reach(tr) : tr[x].pg /\ tr[x].i # 0 } }
LinkLeq(T, F) == \A e \in T : \E f \in F : f[1] = e[1] /\ f[2] = e[2] /\ e[3] <= f[3]

=============================================================================
