----------------------------- MODULE TraphImpl -----------------------------
(***************************************************************************)
(* The write requests of a Traph as WRITE-LIST PRODUCERS over the block    *)
(* store of module Blocks: each operator threads a store record            *)
(* [trie, ls, lastId, wlog] through the exact program-ordered sequence of  *)
(* storage.write calls the Python code issues (redundant rewrites          *)
(* included).  From this single definition come normal semantics (the      *)
(* resulting store), crash semantics (a prefix of the write list, module   *)
(* TraphCrash) and storage accounting.                                     *)
(*                                                                         *)
(* Transcribed from traph/traph.py and traph/lru_trie/lru_trie.py.  Every  *)
(* place where the code rewrites a block from a cached node object it      *)
(* first refresh()es it (or the copy is provably current), so a rewrite is *)
(* modelled as read-modify-write of the current block; module TraphCoop    *)
(* models the cached copies explicitly to show what a missing refresh does.*)
(*                                                                         *)
(* RAM state: ram = function  rule anchor LRU -> rule  (the compiled       *)
(* webentity_creation_rules dict), def = the default rule.  A rule is      *)
(* [k |-> "domain"] / [k |-> "subdomain"] / [k |-> "path", n |-> N].       *)
(***************************************************************************)
EXTENDS Blocks

(***************************************************************************)
(* lru_trie.__ensure_stem_from_siblings                                    *)
(***************************************************************************)
EnsureStem(st, b, s) ==
  IF Len(st.trie) = 0          \* the root does not exist yet: set_stem; write
  THEN [st |-> AppendNode(st, NewHead(s, 0, FALSE)), node |-> 1]
  ELSE LET f == BstFind(st.trie, b, s) IN
       IF f[1] THEN [st |-> st, node |-> f[2]]
       ELSE LET nb   == Len(st.trie) + 1
                last == f[2]
                st1  == AppendNode(st, NewHead(s, st.trie[last].pa, FALSE))
                upd  == IF s < st.trie[last].s THEN [st.trie[last] EXCEPT !.l = nb]
                                               ELSE [st.trie[last] EXCEPT !.r = nb]
            IN [st |-> WT(st1, last, upd), node |-> nb]

(***************************************************************************)
(* lru_trie.add_lru : returns [st, node, hist]                             *)
(***************************************************************************)
RECURSIVE Grow(_, _, _, _, _, _)
Grow(st, n, l, i, flag, h) ==       \* second loop: append the missing stems l[i..]
  IF i > Len(l) THEN [st |-> st, node |-> n, hist |-> h]
  ELSE LET nb  == Len(st.trie) + 1
           st1 == AppendNode(st, NewHead(l[i], n, i < Len(l) /\ flag))
           st2 == WT(st1, n, [st1.trie[n] EXCEPT !.ch = nb])
       IN Grow(st2, nb, l, i + 1, flag, h)

RECURSIVE Descend(_, _, _, _, _, _)
Descend(st, b, l, i, flag, h) ==    \* first loop, at stem i, sibling BST rooted at b
  LET e   == EnsureStem(st, b, l[i])
      n   == e.node
      blk == e.st.trie[n]
      h2  == Visit(h, blk, i)
      st2 == IF i < Len(l) /\ flag /\ blk.nc
             THEN WT(e.st, n, [blk EXCEPT !.nc = FALSE]) ELSE e.st
  IN IF i < Len(l) /\ st2.trie[n].ch # 0
     THEN Descend(st2, st2.trie[n].ch, l, i + 1, flag, h2)
     ELSE Grow(st2, n, l, i + 1, flag, h2)

AddLru(st, l, flag) == Descend(st, 1, l, 1, flag, NoHist)

(***************************************************************************)
(* lru_trie.add_page                                                       *)
(***************************************************************************)
AddPageNode(st, l, crawled) ==
  LET r   == AddLru(st, l, FALSE)
      blk == r.st.trie[r.node]
  IN IF ~blk.pg
     THEN [r EXCEPT !.st = WT(r.st, r.node, [blk EXCEPT !.pg = TRUE, !.cr = crawled]),
                    !.hist.created = TRUE]
     ELSE IF crawled /\ ~blk.cr
     THEN [r EXCEPT !.st = WT(r.st, r.node, [blk EXCEPT !.cr = TRUE])]
     ELSE r

(***************************************************************************)
(* Traph.__add_prefixes / __create_webentity                               *)
(* returns [st, id, valid, exc]  (id = 0: nothing created)                 *)
(***************************************************************************)
RECURSIVE EnsurePrefixes(_, _, _, _)
EnsurePrefixes(st, prefixes, i, acc) ==  \* acc: seq of [p, node, ok] in call order
  IF i > Len(prefixes) THEN [st |-> st, acc |-> acc]
  ELSE LET r == AddLru(st, prefixes[i], TRUE) IN
       EnsurePrefixes(r.st, prefixes, i + 1,
                      Append(acc, [p |-> prefixes[i], node |-> r.node,
                                   ok |-> r.st.trie[r.node].we = 0]))

RECURSIVE SetWes(_, _, _, _)
SetWes(st, nodes, i, id) ==
  IF i > Len(nodes) THEN st
  ELSE SetWes(WT(st, nodes[i], [st.trie[nodes[i]] EXCEPT !.we = id]), nodes, i + 1, id)

AddPrefixes(st, prefixes, bestCase) ==
  LET e       == EnsurePrefixes(st, prefixes, 1, <<>>)
      nInv    == Cardinality({ j \in 1..Len(e.acc) : ~e.acc[j].ok })
      validPs == DedupSeq(SelectSeq([j \in 1..Len(e.acc) |-> IF e.acc[j].ok THEN e.acc[j].p ELSE <<>>],
                                    LAMBDA p : p # <<>>))
      nodeOfAcc(p) == e.acc[CHOOSE j \in 1..Len(e.acc) : e.acc[j].p = p].node
  IN IF nInv > 0 /\ ~bestCase
     THEN [st |-> e.st, id |-> 0, valid |-> <<>>, exc |-> "TraphException"]
     ELSE IF nInv = Len(prefixes)
     THEN [st |-> e.st, id |-> 0, valid |-> <<>>, exc |-> ""]
     ELSE LET id  == e.st.lastId + 1
              st1 == WH(e.st, id)
              nodes == [j \in 1..Len(validPs) |-> nodeOfAcc(validPs[j])]
          IN [st |-> SetWes(st1, nodes, 1, id), id |-> id, valid |-> validPs, exc |-> ""]

(***************************************************************************)
(* Traph.__add_page : the decision ladder shared with get_potential_prefix *)
(* returns [st, node, pages, created, exc]                                 *)
(*   pages   = 1 iff the page is new                                       *)
(*   created = sequence of [id, prefixes] (zero or one entry)              *)
(***************************************************************************)
RamOK(ram, l, rules) == \A p \in rules : Prefix(l, p) \in DOMAIN ram
SetMax(S) == IF S = {} THEN 0 ELSE CHOOSE x \in S : \A y \in S : y <= x
CandidateK(ram, l, rules) == SetMax({ Match(ram[Prefix(l, p)], l) : p \in rules })

(* what the ladder decides: 0 = nothing to create, else the stem length of  *)
(* the prefix to create and expand                                         *)
Ladder(ram, def, l, h) ==
  LET K == CandidateK(ram, l, h.rules) IN
  IF h.we # 0 /\ K <= h.wepos THEN 0
  ELSE IF K > 0 THEN K
  ELSE Match(def, l)

PageStep(st, ram, def, l, crawled) ==
  LET a == AddPageNode(st, l, crawled)
      n == IF a.hist.created THEN 1 ELSE 0
  IN IF ~RamOK(ram, l, a.hist.rules)
     THEN [st |-> a.st, node |-> a.node, pages |-> n, created |-> <<>>, exc |-> "KeyError"]
     ELSE LET c == Ladder(ram, def, l, a.hist) IN
          IF c = 0
          THEN [st |-> a.st, node |-> a.node, pages |-> n, created |-> <<>>, exc |-> ""]
          ELSE LET w == AddPrefixes(a.st, Variations(Prefix(l, c)), TRUE) IN
               [st |-> w.st, node |-> a.node, pages |-> n,
                created |-> IF w.id # 0 THEN <<[id |-> w.id, prefixes |-> w.valid]>> ELSE <<>>,
                exc |-> ""]

(* a request result *)
Res(st, pages, created, exc) == [st |-> st, pages |-> pages, created |-> created, exc |-> exc]

AddPageReq(st, ram, def, l, crawled) ==
  LET p == PageStep(st, ram, def, l, crawled) IN Res(p.st, p.pages, p.created, p.exc)

RECURSIVE AddPagesFold(_, _, _, _, _, _, _)
AddPagesFold(st, ram, def, ls, i, crawled, acc) ==
  IF i > Len(ls) THEN Res(st, acc.pages, acc.created, "")
  ELSE LET p == PageStep(st, ram, def, ls[i], crawled) IN
       IF p.exc # "" THEN Res(p.st, acc.pages + p.pages, acc.created \o p.created, p.exc)
       ELSE AddPagesFold(p.st, ram, def, ls, i + 1, crawled,
                         [pages |-> acc.pages + p.pages, created |-> acc.created \o p.created])
AddPagesReq(st, ram, def, ls, crawled) ==
  AddPagesFold(st, ram, def, ls, 1, crawled, [pages |-> 0, created |-> <<>>])

(***************************************************************************)
(* link_store.add_links: append one stub per target, then repoint the head *)
(***************************************************************************)
RECURSIVE AppendStubs(_, _, _, _)
AppendStubs(st, blocks, i, prev) ==
  IF i > Len(blocks) THEN [st |-> st, last |-> prev]
  ELSE LET k == Len(st.ls) + 1 IN
       AppendStubs(WL(st, k, [tg |-> blocks[i], pv |-> prev]), blocks, i + 1, k)

AddLinkList(st, b, blocks, out) ==
  IF blocks = <<>> THEN st
  ELSE LET a == AppendStubs(st, blocks, 1, IF out THEN st.trie[b].o ELSE st.trie[b].i) IN
       WT(a.st, b, IF out THEN [a.st.trie[b] EXCEPT !.o = a.last]
                          ELSE [a.st.trie[b] EXCEPT !.i = a.last])

(***************************************************************************)
(* Traph.add_links(pairs)                                                  *)
(***************************************************************************)
(* ordered dict lru -> block, as a sequence of [k, v] *)
DGet(d, k) == d[CHOOSE j \in 1..Len(d) : d[j].k = k].v
DHas(d, k) == \E j \in 1..Len(d) : d[j].k = k
DKeys(d) == [j \in 1..Len(d) |-> d[j].k]

RECURSIVE LinkPages(_, _, _, _, _, _)
LinkPages(st, ram, def, lrus, i, acc) ==   \* acc: [d, pages, created]
  IF i > Len(lrus) THEN [st |-> st, d |-> acc.d, pages |-> acc.pages, created |-> acc.created, exc |-> ""]
  ELSE IF DHas(acc.d, lrus[i]) THEN LinkPages(st, ram, def, lrus, i + 1, acc)
  ELSE LET p == PageStep(st, ram, def, lrus[i], FALSE) IN
       IF p.exc # ""
       THEN [st |-> p.st, d |-> acc.d, pages |-> acc.pages + p.pages,
             created |-> acc.created \o p.created, exc |-> p.exc]
       ELSE LinkPages(p.st, ram, def, lrus, i + 1,
                      [d |-> Append(acc.d, [k |-> lrus[i], v |-> p.node]),
                       pages |-> acc.pages + p.pages, created |-> acc.created \o p.created])

(* flatten pairs to the order pages are touched: s1, t1, s2, t2, ... *)
RECURSIVE FlattenPairs(_)
FlattenPairs(pairs) ==
  IF pairs = <<>> THEN <<>> ELSE <<pairs[1][1], pairs[1][2]>> \o FlattenPairs(Tail(pairs))

Sources(pairs) == DedupSeq([j \in 1..Len(pairs) |-> pairs[j][1]])
Targets(pairs) == DedupSeq([j \in 1..Len(pairs) |-> pairs[j][2]])
TargetsOf(pairs, s) ==
  LET q == SelectSeq(pairs, LAMBDA pr : pr[1] = s) IN [j \in 1..Len(q) |-> q[j][2]]
SourcesOf(pairs, t) ==
  LET q == SelectSeq(pairs, LAMBDA pr : pr[2] = t) IN [j \in 1..Len(q) |-> q[j][1]]

RECURSIVE LinkLists(_, _, _, _, _, _)
LinkLists(st, d, pairs, keys, i, out) ==
  IF i > Len(keys) THEN st
  ELSE LET others == IF out THEN TargetsOf(pairs, keys[i]) ELSE SourcesOf(pairs, keys[i])
           blocks == [j \in 1..Len(others) |-> DGet(d, others[j])]
       IN LinkLists(AddLinkList(st, DGet(d, keys[i]), blocks, out), d, pairs, keys, i + 1, out)

AddLinksReq(st, ram, def, pairs) ==
  LET p == LinkPages(st, ram, def, FlattenPairs(pairs), 1, [d |-> <<>>, pages |-> 0, created |-> <<>>]) IN
  IF p.exc # "" THEN Res(p.st, p.pages, p.created, p.exc)
  ELSE LET st1 == LinkLists(p.st, p.d, pairs, Sources(pairs), 1, TRUE)
           st2 == LinkLists(st1, p.d, pairs, Targets(pairs), 1, FALSE)
       IN Res(st2, p.pages, p.created, "")

(***************************************************************************)
(* Traph.index_batch_crawl(data): data = sequence of [src, tgts] with      *)
(* distinct sources (a dict).  Run to completion here; the step-wise       *)
(* version with yield points is in TraphCoop.                              *)
(***************************************************************************)
RECURSIVE CrawlTargets(_, _, _, _, _, _)
CrawlTargets(st, ram, def, tgts, i, acc) ==  \* acc: [d, pages, created, blocks]
  IF i > Len(tgts)
  THEN [st |-> st, d |-> acc.d, pages |-> acc.pages, created |-> acc.created,
        blocks |-> acc.blocks, exc |-> ""]
  ELSE IF DHas(acc.d, tgts[i])
  THEN CrawlTargets(st, ram, def, tgts, i + 1,
                    [acc EXCEPT !.blocks = Append(@, DGet(acc.d, tgts[i]))])
  ELSE LET p == PageStep(st, ram, def, tgts[i], FALSE) IN
       IF p.exc # ""
       THEN [st |-> p.st, d |-> acc.d, pages |-> acc.pages + p.pages,
             created |-> acc.created \o p.created, blocks |-> acc.blocks, exc |-> p.exc]
       ELSE CrawlTargets(p.st, ram, def, tgts, i + 1,
                         [d |-> Append(acc.d, [k |-> tgts[i], v |-> p.node]),
                          pages |-> acc.pages + p.pages, created |-> acc.created \o p.created,
                          blocks |-> Append(acc.blocks, p.node)])

RECURSIVE CrawlSources(_, _, _, _, _, _)
CrawlSources(st, ram, def, data, i, acc) ==  \* acc: [d, pages, created]
  IF i > Len(data) THEN [st |-> st, d |-> acc.d, pages |-> acc.pages, created |-> acc.created, exc |-> ""]
  ELSE
    LET src == data[i].src
        \* the source page: new to this batch, or already met as a target
        s1 == IF DHas(acc.d, src)
              THEN LET b == DGet(acc.d, src) IN
                   [st |-> IF ~st.trie[b].cr THEN WT(st, b, [st.trie[b] EXCEPT !.cr = TRUE]) ELSE st,
                    node |-> b, pages |-> 0, created |-> <<>>, exc |-> "", d |-> acc.d]
              ELSE LET p == PageStep(st, ram, def, src, TRUE) IN
                   [st |-> p.st, node |-> p.node, pages |-> p.pages, created |-> p.created,
                    exc |-> p.exc, d |-> Append(acc.d, [k |-> src, v |-> p.node])]
    IN IF s1.exc # ""
       THEN [st |-> s1.st, d |-> acc.d, pages |-> acc.pages + s1.pages,
             created |-> acc.created \o s1.created, exc |-> s1.exc]
       ELSE LET t == CrawlTargets(s1.st, ram, def, data[i].tgts, 1,
                                  [d |-> s1.d, pages |-> acc.pages + s1.pages,
                                   created |-> acc.created \o s1.created, blocks |-> <<>>])
            IN IF t.exc # ""
               THEN [st |-> t.st, d |-> t.d, pages |-> t.pages, created |-> t.created, exc |-> t.exc]
               ELSE CrawlSources(AddLinkList(t.st, s1.node, t.blocks, TRUE), ram, def, data, i + 1,
                                 [d |-> t.d, pages |-> t.pages, created |-> t.created])

RECURSIVE CrawlPairs(_)
CrawlPairs(data) ==     \* the links of a crawl batch as a sequence of pairs, in submission order
  IF data = <<>> THEN <<>>
  ELSE [j \in 1..Len(data[1].tgts) |-> <<data[1].src, data[1].tgts[j]>>] \o CrawlPairs(Tail(data))

IndexBatchCrawlReq(st, ram, def, data) ==
  LET c == CrawlSources(st, ram, def, data, 1, [d |-> <<>>, pages |-> 0, created |-> <<>>]) IN
  IF c.exc # "" THEN Res(c.st, c.pages, c.created, c.exc)
  ELSE LET pairs == CrawlPairs(data) IN
       Res(LinkLists(c.st, c.d, pairs, Targets(pairs), 1, FALSE), c.pages, c.created, "")

(***************************************************************************)
(* Webentity edits                                                         *)
(***************************************************************************)
CreateWebentityReq(st, prefixes) ==
  LET w == AddPrefixes(st, prefixes, FALSE) IN
  Res(w.st, 0, IF w.exc = "" THEN <<[id |-> w.id, prefixes |-> w.valid]>> ELSE <<>>, w.exc)

RECURSIVE UnsetWes(_, _, _)
UnsetWes(st, nodes, i) ==
  IF i > Len(nodes) THEN st
  ELSE UnsetWes(WT(st, nodes[i], [st.trie[nodes[i]] EXCEPT !.we = 0]), nodes, i + 1)

DeleteWebentityReq(st, weid, prefixes) ==    \* check_for_corruption = True
  LET bad == \E j \in 1..Len(prefixes) :
               LET n == LruNode(st.trie, prefixes[j]) IN n = 0 \/ st.trie[n].we # weid
      ps  == DedupSeq(prefixes)
  IN IF bad THEN Res(st, 0, <<>>, "TraphException")
     ELSE Res(UnsetWes(st, [j \in 1..Len(ps) |-> LruNode(st.trie, ps[j])], 1), 0, <<>>, "")

(* delete_webentity(weid, prefixes, check_for_corruption=False): the id is ignored; a prefix *)
(* that cannot be found makes the loop fail (AttributeError on None) after the earlier ones   *)
RECURSIVE UnsetUnchecked(_, _, _)
UnsetUnchecked(st, ps, i) ==
  IF i > Len(ps) THEN Res(st, 0, <<>>, "")
  ELSE LET n == LruNode(st.trie, ps[i]) IN
       IF n = 0 THEN Res(st, 0, <<>>, "AttributeError")
       ELSE UnsetUnchecked(WT(st, n, [st.trie[n] EXCEPT !.we = 0]), ps, i + 1)
DeleteWebentityUncheckedReq(st, prefixes) == UnsetUnchecked(st, DedupSeq(prefixes), 1)

AddPrefixReq(st, prefix, weid) ==
  LET r == AddLru(st, prefix, TRUE) IN
  IF r.st.trie[r.node].we # 0 THEN Res(r.st, 0, <<>>, "TraphException")
  ELSE Res(WT(r.st, r.node, [r.st.trie[r.node] EXCEPT !.we = weid]), 0, <<>>, "")

RemovePrefixReq(st, prefix, weid) ==     \* weid = 0 stands for the default False
  LET r == AddLru(st, prefix, FALSE) IN
  IF weid = 0 \/ r.st.trie[r.node].we = weid
  THEN Res(WT(r.st, r.node, [r.st.trie[r.node] EXCEPT !.we = 0]), 0, <<>>, "")
  ELSE Res(r.st, 0, <<>>, "TraphException")

MovePrefixReq(st, prefix, target, source) ==
  LET r == RemovePrefixReq(st, prefix, source) IN
  IF r.exc # "" THEN r ELSE AddPrefixReq(r.st, prefix, target)

(***************************************************************************)
(* Creation rules                                                          *)
(***************************************************************************)

RECURSIVE RulePages(_, _, _, _, _, _)
RulePages(st, ram, def, ls, i, acc) ==
  IF i > Len(ls) THEN Res(st, acc.pages, acc.created, "")
  ELSE LET p == PageStep(st, ram, def, ls[i], FALSE) IN
       IF p.exc # "" THEN Res(p.st, acc.pages + p.pages, acc.created \o p.created, p.exc)
       ELSE RulePages(p.st, ram, def, ls, i + 1,
                      [pages |-> acc.pages + p.pages, created |-> acc.created \o p.created])

(* the pages beneath (and at) block b, in the order dfs_iter meets them *)
PagesBeneath(tr, b, lru) ==
  LET d == DfsFrom(tr, b, lru, FALSE)
      q == SelectSeq(d, LAMBDA e : tr[e[1]].pg)
  IN [j \in 1..Len(q) |-> q[j][2]]

(* returns a result plus the new ram *)
AddRuleReq(st, ram, def, anchor, rule, writeInTrie) ==
  LET ram2 == RamSet(ram, anchor, rule) IN
  IF ~writeInTrie THEN [res |-> Res(st, 0, <<>>, ""), ram |-> ram2]
  ELSE LET r   == AddLru(st, anchor, FALSE)
           st1 == WT(r.st, r.node, [r.st.trie[r.node] EXCEPT !.ru = TRUE])
       IN [res |-> RulePages(st1, ram2, def, PagesBeneath(st1.trie, r.node, anchor), 1,
                             [pages |-> 0, created |-> <<>>]),
           ram |-> ram2]

RemoveRuleReq(st, ram, anchor) ==
  IF anchor \notin DOMAIN ram THEN [res |-> Res(st, 0, <<>>, "KeyError"), ram |-> ram]
  ELSE LET n == LruNode(st.trie, anchor) IN
       IF n = 0 THEN [res |-> Res(st, 0, <<>>, "TraphException"), ram |-> RamDel(ram, anchor)]
       ELSE [res |-> Res(WT(st, n, [st.trie[n] EXCEPT !.ru = FALSE]), 0, <<>>, ""),
             ram |-> RamDel(ram, anchor)]

(***************************************************************************)
(* Life cycle: a fresh index with constructor rules (each installed with   *)
(* write_in_trie = True, in dict order); clear = the same on emptied files *)
(***************************************************************************)
RECURSIVE InstallRules(_, _, _, _, _)
InstallRules(st, ram, def, rules, i) ==    \* rules: sequence of [anchor, rule]
  IF i > Len(rules) THEN [st |-> st, ram |-> ram]
  ELSE LET a == AddRuleReq(st, ram, def, rules[i].anchor, rules[i].rule, TRUE) IN
       InstallRules(a.res.st, a.ram, def, rules, i + 1)

FreshIndex(def, rules) == InstallRules(EmptyStore, EmptyRam, def, rules, 1)

RECURSIVE RamOfRules(_)
RamOfRules(rules) ==
  IF rules = <<>> THEN EmptyRam
  ELSE RamSet(RamOfRules(SubSeq(rules, 1, Len(rules) - 1)),
              rules[Len(rules)].anchor, rules[Len(rules)].rule)

=============================================================================
