-------------------------------- MODULE Lru --------------------------------
(***************************************************************************)
(* Vocabulary of the Traph specification: stems, LRUs, stem-prefixes, the  *)
(* scheme / www variations of a prefix (helpers.lru_variations) and the    *)
(* token-level meaning of Hyphe's family of webentity creation rules.      *)
(*                                                                         *)
(* A stem is a natural number s >= 1: its RANK in the byte order of whole  *)
(* stems (terminator '|' included), so that  a < b  here  iff  the byte    *)
(* strings compare that way in the Python code.  Everything else the       *)
(* behaviour depends on is in the table StemTab (module Universe):         *)
(*   len   byte length of the stem, terminator included                    *)
(*   kind  "s" scheme, "t" port, "h" host, "p" path, "o" anything else     *)
(*         (decided by the first two bytes, as lru_variations does)        *)
(*   ok    the stem matches the character class the rule family demands    *)
(*         for its kind (s:[a-zA-Z]+, t:[0-9]+, h:[^|]+, p:[^|]+)          *)
(*   flip  rank of the stem with the other scheme (s:http| <-> s:https|),  *)
(*         0 when the stem is not one of these two                         *)
(*   www   the stem is exactly h:www|                                      *)
(*   local the stem is h:localhost|, an IPv4 or an IPv6 host               *)
(* WwwStem is the rank of h:www| (0 when the universe has none).           *)
(***************************************************************************)
EXTENDS Naturals, Integers, Sequences, FiniteSets, Universe

Payload == 74     \* LRU_TRIE_STEM_SIZE: stem bytes per trie block

Max(a, b) == IF a >= b THEN a ELSE b
Min(a, b) == IF a <= b THEN a ELSE b

NStems == Len(StemTab)
SLen(s)   == StemTab[s].len
SKind(s)  == StemTab[s].kind
SOk(s)    == StemTab[s].ok
SFlip(s)  == StemTab[s].flip
SWww(s)   == StemTab[s].www
SLocal(s) == StemTab[s].local

(* number of trie blocks a stem occupies: one head + tails of 74 bytes *)
NBlocks(s) == (SLen(s) + Payload - 1) \div Payload
(* payload bytes carried by chunk c (0 = head) of stem s *)
ChunkBytes(s, c) == Min(Payload, SLen(s) - Payload * c)

(***************************************************************************)
(* LRUs are non-empty sequences of stems.                                  *)
(***************************************************************************)
Prefix(l, n)   == SubSeq(l, 1, n)
Prefixes(l)    == { Prefix(l, n) : n \in 1..Len(l) }
ProperPrefixes(l) == { Prefix(l, n) : n \in 1..(Len(l) - 1) }
IsPrefixOf(p, l) == Len(p) <= Len(l) /\ Prefix(l, Len(p)) = p
IsProperPrefixOf(p, l) == Len(p) < Len(l) /\ Prefix(l, Len(p)) = p
PrefixClosure(S) == UNION { Prefixes(l) : l \in S }

(* byte order of whole LRUs that share the same parent (ascending order    *)
(* inside one sibling set is the order of ranks); lexicographic on ranks   *)
RECURSIVE LruLess(_, _)
LruLess(a, b) ==
  IF a = <<>> THEN b # <<>>
  ELSE IF b = <<>> THEN FALSE
  ELSE IF Head(a) # Head(b) THEN Head(a) < Head(b)
  ELSE LruLess(Tail(a), Tail(b))

SeqToSet(q) == { q[i] : i \in 1..Len(q) }

(* remove later duplicates, keep first occurrences (dict key order) *)
RECURSIVE DedupSeq(_)
DedupSeq(q) ==
  IF q = <<>> THEN <<>>
  ELSE LET r == DedupSeq(SubSeq(q, 1, Len(q) - 1))
           x == q[Len(q)]
       IN IF x \in SeqToSet(r) THEN r ELSE Append(r, x)

(* deterministic enumeration of a finite set *)
RECURSIVE SetToSortedSeq(_)
SetToSortedSeq(S) ==
  IF S = {} THEN <<>>
  ELSE LET m == CHOOSE x \in S : \A y \in S : x = y \/ LruLess(x, y) \/ (~LruLess(y, x) /\ Len(x) <= Len(y))
       IN <<m>> \o SetToSortedSeq(S \ {m})

(* the RAM rule table: function anchor LRU -> rule *)
EmptyRam == [a \in {} |-> 0]
RamSet(ram, anchor, rule) == [a \in DOMAIN ram \cup {anchor} |-> IF a = anchor THEN rule ELSE ram[a]]
RamDel(ram, anchor) == [a \in DOMAIN ram \ {anchor} |-> ram[a]]

(***************************************************************************)
(* Variations (what property C17 demands of helpers.lru_variations).       *)
(* Shape of an LRU: scheme stem, optional port stem, a run of host stems,  *)
(* then anything.  Only the scheme stem and a trailing www host change.    *)
(***************************************************************************)
HostStart(l) ==
  IF Len(l) >= 1 /\ SKind(l[1]) = "s"
  THEN (IF Len(l) >= 2 /\ SKind(l[2]) = "t" THEN 3 ELSE 2)
  ELSE 1

RECURSIVE HostRunFrom(_, _)
HostRunFrom(l, i) ==   \* number of consecutive host stems starting at i
  IF i <= Len(l) /\ SKind(l[i]) = "h" THEN 1 + HostRunFrom(l, i + 1) ELSE 0

HostCount(l) == HostRunFrom(l, HostStart(l))

HasFlip(l) == Len(l) >= 1 /\ SFlip(l[1]) # 0
FlipVar(l) == [l EXCEPT ![1] = SFlip(l[1])]

(* the www toggle: defined only with >= 2 hosts (adding) or >= 3 (removing) *)
HasWwwVar(l) ==
  LET n == HostCount(l)
      last == HostStart(l) + n - 1
  IN  /\ n >= 2
      /\ (SWww(l[last]) => n >= 3)
      /\ (~SWww(l[last]) => WwwStem # 0)
WwwVar(l) ==
  LET n == HostCount(l)
      last == HostStart(l) + n - 1
  IN IF SWww(l[last])
     THEN SubSeq(l, 1, last - 1) \o SubSeq(l, last + 1, Len(l))
     ELSE SubSeq(l, 1, last) \o <<WwwStem>> \o SubSeq(l, last + 1, Len(l))

Variations(l) ==
  <<l>>
  \o (IF HasFlip(l) THEN <<FlipVar(l)>> ELSE <<>>)
  \o (IF HasWwwVar(l) THEN <<WwwVar(l)>> ELSE <<>>)
  \o (IF HasFlip(l) /\ HasWwwVar(l) THEN <<WwwVar(FlipVar(l))>> ELSE <<>>)

VariationSet(l) == SeqToSet(Variations(l))

(* the algebraic laws of C17 on the token-level definition *)
VarHeadIsSelf(l)  == Variations(l)[1] = l
VarNoDup(l)       == Cardinality(VariationSet(l)) = Len(Variations(l))
VarClosed(l)      == \A v \in VariationSet(l) : VariationSet(v) = VariationSet(l)
(* v differs from l only in the scheme stem and a trailing www host stem *)
StripWww(l) ==
  LET n == HostCount(l)
      last == HostStart(l) + n - 1
  IN IF n >= 3 /\ SWww(l[last])
     THEN SubSeq(l, 1, last - 1) \o SubSeq(l, last + 1, Len(l)) ELSE l
VarOnlySchemeWww(l) ==
  \A v \in VariationSet(l) :
     LET a == StripWww(l)  b == StripWww(v)
     IN /\ Len(a) = Len(b)
        /\ \A i \in 2..Len(a) : a[i] = b[i]
        /\ (a[1] = b[1] \/ SFlip(a[1]) = b[1])

(***************************************************************************)
(* Rules: Hyphe's family domain / subdomain / path-N, token level.         *)
(* Match(kind, l) = number of stems of l covered by the match at offset 0, *)
(* 0 when the rule proposes nothing.  kind is "domain", "subdomain" or     *)
(* "pathN" given as the record [k |-> "path", n |-> N].                    *)
(***************************************************************************)
RECURSIVE OkRunFrom(_, _, _)
OkRunFrom(l, i, kind) ==
  IF i <= Len(l) /\ SKind(l[i]) = kind /\ SOk(l[i])
  THEN 1 + OkRunFrom(l, i + 1, kind) ELSE 0

RuleHostStart(l) ==   \* 0: the scheme part does not match
  IF Len(l) >= 1 /\ SKind(l[1]) = "s" /\ SOk(l[1])
  THEN (IF Len(l) >= 2 /\ SKind(l[2]) = "t" /\ SOk(l[2]) THEN 3 ELSE 2)
  ELSE 0

Match(rule, l) ==
  LET h0 == RuleHostStart(l) IN
  IF h0 = 0 THEN 0
  ELSE
    LET n == OkRunFrom(l, h0, "h")
        firstLocal == n >= 1 /\ SLocal(l[h0])
    IN CASE rule.k = "domain" ->
              IF n >= 2 THEN h0 + 1
              ELSE IF firstLocal THEN h0 ELSE 0
         [] rule.k = "subdomain" ->
              IF n >= 2 THEN h0 + n - 1
              ELSE IF firstLocal THEN h0 ELSE 0
         [] rule.k = "path" ->
              IF n >= 2 /\ OkRunFrom(l, h0 + n, "p") >= rule.n
              THEN h0 + n - 1 + rule.n
              ELSE IF firstLocal /\ OkRunFrom(l, h0 + 1, "p") >= rule.n
                   THEN h0 + rule.n
                   ELSE 0
         [] OTHER -> 0

=============================================================================
