------------------------------ MODULE VarRows ------------------------------
(***************************************************************************)
(* Binding of property C17: rows recorded from the real helpers            *)
(* (lru_variations / Traph.expand_prefix and automatic creation from each  *)
(* member of a variation class) are judged against the token-level         *)
(* definition of module Lru.  One state per row, one VERDICT line each.    *)
(*   row: id, l, vars (reported list), exc, members [{m, vars, exc}],      *)
(*        created [{m, prefixes, exc}] (prefix sets created from m + rest) *)
(***************************************************************************)
EXTENDS Lru, TLC

Rows == Batch.extra.rows
VARIABLE r
Init == r \in 1..Len(Rows)
Next == FALSE /\ r' = r
Spec == Init /\ [][Next]_r

FailNames(q) == LET f == SelectSeq(q, LAMBDA c : ~c[2]) IN [j \in 1..Len(f) |-> <<1, f[j][1]>>]

Clauses(R) ==
  LET vs == SeqToSet(R.vars) IN
  FailNames(<<
    <<"C17.total",  R.exc = "" /\ \A j \in 1..Len(R.members) : R.members[j].exc = "">>,
    <<"C17.equal",  R.exc = "" => SeqToSet(R.vars) = VariationSet(R.l)>>,
    <<"bind.varorder", R.exc = "" => R.vars = Variations(R.l)>>,
    <<"C17.head",   R.exc = "" => (Len(R.vars) >= 1 /\ R.vars[1] = R.l)>>,
    <<"C17.nodup",  Len(R.vars) = Cardinality(vs)>>,
    <<"C17.only",   \A v \in vs :
                      LET a == StripWww(R.l)  b == StripWww(v) IN
                      /\ Len(a) = Len(b)
                      /\ \A i \in 2..Len(a) : a[i] = b[i]
                      /\ (a[1] = b[1] \/ SFlip(a[1]) = b[1])>>,
    <<"C17.closed", \A j \in 1..Len(R.members) : SeqToSet(R.members[j].vars) = vs>>,
    <<"C17.instance", \A j \in 1..Len(R.shared) :      \* the same answers from a long-lived index
                      /\ R.shared[j].exc = ""
                      /\ Len(R.shared[j].vars) >= 1 /\ R.shared[j].vars[1] = R.shared[j].m
                      /\ SeqToSet(R.shared[j].vars) = vs
                      /\ Len(R.shared[j].vars) = Cardinality(vs)>>,
    <<"C17.sameWe", \A i \in 1..Len(R.created) : \A j \in 1..Len(R.created) :
                      /\ R.created[i].exc = ""
                      /\ SeqToSet(R.created[i].prefixes) = SeqToSet(R.created[j].prefixes)>>
  >>)

Report == PrintT(<<"VERDICT", Rows[r].id, 1, Clauses(Rows[r])>>)
=============================================================================
