------------------------------- MODULE Blocks -------------------------------
(***************************************************************************)
(* The two block files of a Traph and the read algorithms over them,       *)
(* transcribed from traph/lru_trie/lru_trie.py, traph/lru_trie/node.py,    *)
(* traph/link_store/link_store.py.                                         *)
(*                                                                         *)
(* trie : sequence of block records; index b = block number b of           *)
(*        lru_trie.dat (byte offset 128*b); block 0 is the header and is   *)
(*        represented by lastId alone.  Pointer value 0 = null.            *)
(* ls   : sequence of link stubs [tg, pv]; index k = block number k of     *)
(*        link_store.dat (byte offset 16*k); block 0 is the header.        *)
(*                                                                         *)
(* A trie block record (same fields for heads and tails, as on disk):      *)
(*   t  IS_TAIL flag          s  stem rank        c  chunk index (0=head)  *)
(*   nb payload bytes in this block               mo HAS_TAIL flag         *)
(*   pg PAGE  cr CRAWLED  ru WEBENTITY_CREATION_RULE                       *)
(*   nc NO_CHILD_WEBENTITIES (on by default)  x  any other flag bit (0)    *)
(*   we webentity id   l r ch pa  left/right/child/parent block numbers    *)
(*   o i  heads of the out / in link lists (link store block numbers)      *)
(***************************************************************************)
EXTENDS Lru

NewHead(s, parent, canHaveChildWe) ==
  [t |-> FALSE, s |-> s, c |-> 0, nb |-> ChunkBytes(s, 0), mo |-> NBlocks(s) > 1,
   pg |-> FALSE, cr |-> FALSE, ru |-> FALSE, nc |-> ~canHaveChildWe, x |-> 0,
   we |-> 0, l |-> 0, r |-> 0, ch |-> 0, pa |-> parent, o |-> 0, i |-> 0]

NewTail(s, c) ==
  [t |-> TRUE, s |-> s, c |-> c, nb |-> ChunkBytes(s, c), mo |-> c < NBlocks(s) - 1,
   pg |-> FALSE, cr |-> FALSE, ru |-> FALSE, nc |-> TRUE, x |-> 0,
   we |-> 0, l |-> 0, r |-> 0, ch |-> 0, pa |-> 0, o |-> 0, i |-> 0]

EmptyStore == [trie |-> <<>>, ls |-> <<>>, lastId |-> 0, wlog |-> <<>>]

(***************************************************************************)
(* Primitive writes.  Every storage.write the code issues is one of these, *)
(* appended to wlog in program order WITH ITS CONTENT: the write list of a  *)
(* request is the suffix of wlog it produced (applying a prefix of it gives *)
(* the files after a crash, module TraphCrash).  idx = Len+1 is an append.  *)
(***************************************************************************)
WT(st, b, blk) ==
  [st EXCEPT !.trie = IF b = Len(@) + 1 THEN Append(@, blk) ELSE [@ EXCEPT ![b] = blk],
             !.wlog = Append(@, [f |-> "T", i |-> b, app |-> b = Len(st.trie) + 1, b |-> blk])]
WL(st, k, stub) ==
  [st EXCEPT !.ls = IF k = Len(@) + 1 THEN Append(@, stub) ELSE [@ EXCEPT ![k] = stub],
             !.wlog = Append(@, [f |-> "L", i |-> k, app |-> k = Len(st.ls) + 1, b |-> stub])]
WH(st, id) ==
  [st EXCEPT !.lastId = id,
             !.wlog = Append(@, [f |-> "H", i |-> 0, app |-> FALSE, b |-> id])]

(* write a brand new node (head + tail blocks) at the end of the trie *)
RECURSIVE AppendTails(_, _, _)
AppendTails(st, s, c) ==
  IF c >= NBlocks(s) THEN st
  ELSE AppendTails(WT(st, Len(st.trie) + 1, NewTail(s, c)), s, c + 1)
AppendNode(st, head) ==
  AppendTails(WT(st, Len(st.trie) + 1, head), head.s, 1)

(***************************************************************************)
(* Reads                                                                   *)
(***************************************************************************)
IsHead(tr, b) == b \in 1..Len(tr) /\ ~tr[b].t

(* binary search inside one sibling set, from BST node b *)
RECURSIVE BstFind(_, _, _)
BstFind(tr, b, s) ==    \* <<found, block>>; not found: the node where the search stopped
  IF tr[b].s = s THEN <<TRUE, b>>
  ELSE IF s < tr[b].s
       THEN (IF tr[b].l # 0 THEN BstFind(tr, tr[b].l, s) ELSE <<FALSE, b>>)
       ELSE (IF tr[b].r # 0 THEN BstFind(tr, tr[b].r, s) ELSE <<FALSE, b>>)

(* lru_trie.lru_node: block of the node spelling l, 0 if absent *)
RECURSIVE LruNodeFrom(_, _, _, _)
LruNodeFrom(tr, b, l, i) ==
  LET f == BstFind(tr, b, l[i]) IN
  IF ~f[1] THEN 0
  ELSE IF i = Len(l) THEN f[2]
  ELSE IF tr[f[2]].ch = 0 THEN 0
  ELSE LruNodeFrom(tr, tr[f[2]].ch, l, i + 1)
LruNode(tr, l) == IF Len(tr) = 0 THEN 0 ELSE LruNodeFrom(tr, 1, l, 1)

(* walk history of follow_lru / add_lru: deepest webentity met, rule anchors met *)
NoHist == [we |-> 0, wepos |-> 0, rules |-> {}, created |-> FALSE]
Visit(h, blk, i) ==
  [h EXCEPT !.we    = IF blk.we # 0 THEN blk.we ELSE @,
            !.wepos = IF blk.we # 0 THEN i ELSE @,
            !.rules = IF blk.ru THEN @ \cup {i} ELSE @]

RECURSIVE FollowFrom(_, _, _, _, _)
FollowFrom(tr, b, l, i, h) ==   \* [node, hist]
  LET f == BstFind(tr, b, l[i]) IN
  IF ~f[1] THEN [node |-> 0, hist |-> h]
  ELSE LET h2 == Visit(h, tr[f[2]], i) IN
       IF i = Len(l) THEN [node |-> f[2], hist |-> h2]
       ELSE IF tr[f[2]].ch = 0 THEN [node |-> 0, hist |-> h2]
       ELSE FollowFrom(tr, tr[f[2]].ch, l, i + 1, h2)
FollowLru(tr, l) ==
  IF Len(tr) = 0 THEN [node |-> 0, hist |-> NoHist] ELSE FollowFrom(tr, 1, l, 1, NoHist)

(* bottom-up reconstruction: lru_trie.windup_lru *)
RECURSIVE Windup(_, _)
Windup(tr, b) ==
  IF tr[b].pa = 0 THEN <<tr[b].s>> ELSE Append(Windup(tr, tr[b].pa), tr[b].s)

(* lru_trie.windup_lru_for_webentity: nearest webentity at or above b, 0 if none *)
RECURSIVE WindupWe(_, _)
WindupWe(tr, b) ==
  IF tr[b].we # 0 THEN tr[b].we
  ELSE IF tr[b].pa = 0 THEN 0 ELSE WindupWe(tr, tr[b].pa)

(* node_parents_iter: the chain of parent blocks, nearest first *)
RECURSIVE ParentChain(_, _)
ParentChain(tr, b) ==
  IF tr[b].pa = 0 THEN <<>> ELSE <<tr[b].pa>> \o ParentChain(tr, tr[b].pa)

(***************************************************************************)
(* Traversals.  Each returns the sequence of <<block, lru>> in the exact    *)
(* order the Python generator yields them.                                 *)
(***************************************************************************)
(* dfs_iter from the root: pop; yield; push right, left, child             *)
(*   => order: node, child subtree, left subtree, right subtree            *)
RECURSIVE DfsAll(_, _, _, _)
DfsAll(tr, b, pre, skipChildless) ==
  IF b = 0 THEN <<>>
  ELSE LET cur == Append(pre, tr[b].s) IN
       <<<<b, cur>>>>
       \o (IF skipChildless /\ tr[b].nc THEN <<>> ELSE DfsAll(tr, tr[b].ch, cur, skipChildless))
       \o DfsAll(tr, tr[b].l, pre, skipChildless)
       \o DfsAll(tr, tr[b].r, pre, skipChildless)
DfsRoot(tr) == IF Len(tr) = 0 THEN <<>> ELSE DfsAll(tr, 1, <<>>, FALSE)

(* dfs_iter(starting_node, lru): the start's own siblings are not followed *)
DfsFrom(tr, b, lru, skipChildless) ==
  <<<<b, lru>>>>
  \o (IF skipChildless /\ tr[b].nc THEN <<>> ELSE DfsAll(tr, tr[b].ch, lru, skipChildless))

(* webentity_dfs_iter: stop below any node owned by a webentity, other     *)
(* than the start; siblings of an owned node are still visited; optional   *)
(* depth limit (Unlimited = -1)                                            *)
Unlimited == -1
RECURSIVE WeDfsAll(_, _, _, _, _)
WeDfsAll(tr, b, pre, level, maxDepth) ==
  IF b = 0 THEN <<>>
  ELSE LET cur == Append(pre, tr[b].s)
           rel == tr[b].we = 0
       IN (IF rel THEN <<<<b, cur>>>> ELSE <<>>)
          \o (IF rel /\ tr[b].ch # 0 /\ ~(maxDepth # Unlimited /\ level >= maxDepth)
              THEN WeDfsAll(tr, tr[b].ch, cur, level + 1, maxDepth) ELSE <<>>)
          \o WeDfsAll(tr, tr[b].l, pre, level, maxDepth)
          \o WeDfsAll(tr, tr[b].r, pre, level, maxDepth)
WeDfsFrom(tr, b, lru, maxDepth) ==
  <<<<b, lru>>>>
  \o (IF tr[b].ch # 0 /\ ~(maxDepth # Unlimited /\ 0 >= maxDepth)
      THEN WeDfsAll(tr, tr[b].ch, lru, 1, maxDepth) ELSE <<>>)

(* dfs_with_webentity_iter: <<block, nearest webentity at or above>> *)
RECURSIVE DfsWe(_, _, _)
DfsWe(tr, b, we) ==
  IF b = 0 THEN <<>>
  ELSE LET cw == IF tr[b].we # 0 THEN tr[b].we ELSE we IN
       <<<<b, cw>>>> \o DfsWe(tr, tr[b].ch, cw) \o DfsWe(tr, tr[b].l, we) \o DfsWe(tr, tr[b].r, we)
DfsWeRoot(tr) == IF Len(tr) = 0 THEN <<>> ELSE DfsWe(tr, 1, 0)

(* nodes_iter: linear scan of all blocks (tails included) *)
PageBlocks(tr) == { b \in 1..Len(tr) : tr[b].pg }

(***************************************************************************)
(* webentity_inorder_iter with path pruning.  A path is the sequence of    *)
(* moves from the start (1 left, 2 child, 3 right), i.e. the base-4 digits *)
(* of the integer the code carries.  Yields <<block, lru, path>>.          *)
(***************************************************************************)
RECURSIVE PathLess(_, _)
PathLess(a, b) ==   \* strict lexicographic order on digit strings (Python str <)
  IF a = <<>> THEN b # <<>>
  ELSE IF b = <<>> THEN FALSE
  ELSE IF Head(a) # Head(b) THEN Head(a) < Head(b)
  ELSE PathLess(Tail(a), Tail(b))

(* can_follow_path: current_path >= comparison_path[:len(current_path)] *)
CanFollow(cur, cmp) ==
  cur = <<>> \/ ~PathLess(cur, SubSeq(cmp, 1, Min(Len(cur), Len(cmp))))

RECURSIVE FollowPath(_, _, _, _)
FollowPath(tr, b, pre, p) ==   \* the LRU the path leads to (follow_path)
  IF p = <<>> THEN Append(pre, tr[b].s)
  ELSE IF Head(p) = 1 THEN FollowPath(tr, tr[b].l, pre, Tail(p))
  ELSE IF Head(p) = 2 THEN FollowPath(tr, tr[b].ch, Append(pre, tr[b].s), Tail(p))
  ELSE FollowPath(tr, tr[b].r, pre, Tail(p))

(* a path is walkable from b iff every move has a pointer to follow *)
RECURSIVE PathWalkable(_, _, _)
PathWalkable(tr, b, p) ==
  IF p = <<>> THEN TRUE
  ELSE LET nx == IF Head(p) = 1 THEN tr[b].l ELSE IF Head(p) = 2 THEN tr[b].ch ELSE tr[b].r
       IN nx # 0 /\ PathWalkable(tr, nx, Tail(p))

(* resume = <<>> with hasResume = FALSE means a traversal from the start *)
RECURSIVE InOrder(_, _, _, _, _, _, _, _)
InOrder(tr, start, b, pre, path, hasResume, cmp, resumeLru) ==
  IF hasResume /\ ~CanFollow(path, cmp) THEN <<>>
  ELSE
    LET cur == Append(pre, tr[b].s)
        rel == b = start \/ tr[b].we = 0
    IN (IF b # start /\ tr[b].l # 0
        THEN InOrder(tr, start, tr[b].l, pre, Append(path, 1), hasResume, cmp, resumeLru) ELSE <<>>)
       \o (IF rel /\ (~hasResume \/ LruLess(resumeLru, cur)) THEN <<<<b, cur, path>>>> ELSE <<>>)
       \o (IF rel /\ tr[b].ch # 0
           THEN InOrder(tr, start, tr[b].ch, cur, Append(path, 2), hasResume, cmp, resumeLru) ELSE <<>>)
       \o (IF b # start /\ tr[b].r # 0
           THEN InOrder(tr, start, tr[b].r, pre, Append(path, 3), hasResume, cmp, resumeLru) ELSE <<>>)

(* prefix = the LRU of the starting node; pre = its dirname *)
WeInOrder(tr, start, prefix, hasResume, cmp) ==
  LET pre == SubSeq(prefix, 1, Len(prefix) - 1) IN
  InOrder(tr, start, start, pre, <<>>, hasResume, cmp,
          IF hasResume THEN FollowPath(tr, start, pre, cmp) ELSE <<>>)

(***************************************************************************)
(* Link lists                                                              *)
(***************************************************************************)
RECURSIVE Chain(_, _)
Chain(ls, k) ==      \* targets of the reverse linked list starting at stub k, newest first
  IF k = 0 THEN <<>> ELSE <<ls[k].tg>> \o Chain(ls, ls[k].pv)

Count(q, x) == Cardinality({ i \in 1..Len(q) : q[i] = x })
(* weighted_link_nodes_iter: distinct targets in first-seen order with multiplicity *)
Weighted(ls, k) ==
  LET c == Chain(ls, k)  d == DedupSeq(c)
  IN [i \in 1..Len(d) |-> <<d[i], Count(c, d[i])>>]
Deduped(ls, k) == DedupSeq(Chain(ls, k))

(***************************************************************************)
(* Structural invariants of the pair of files (property C02 / C19)         *)
(***************************************************************************)
Heads(tr) == { b \in 1..Len(tr) : ~tr[b].t }

(* every block is a head or a tail; tails are contiguous after their head, *)
(* chunks are numbered and sized as the stem demands; flags consistent     *)
BlockShapeOK(tr) ==
  \A b \in 1..Len(tr) :
    LET k == tr[b] IN
    /\ k.s \in 1..NStems
    /\ k.x = 0
    /\ k.c \in 0..(NBlocks(k.s) - 1)
    /\ k.nb = ChunkBytes(k.s, k.c)
    /\ k.mo = (k.c < NBlocks(k.s) - 1)
    /\ k.t = (k.c > 0)
    /\ (k.t => /\ b > 1 /\ tr[b-1].s = k.s /\ tr[b-1].c = k.c - 1 /\ tr[b-1].mo
               /\ ~k.pg /\ ~k.cr /\ ~k.ru /\ k.nc /\ k.we = 0
               /\ k.l = 0 /\ k.r = 0 /\ k.ch = 0 /\ k.pa = 0 /\ k.o = 0 /\ k.i = 0)
    /\ (k.mo => b < Len(tr) /\ tr[b+1].t)
    /\ (~k.pg => ~k.cr)

PointersOK(tr, ls) ==
  \A b \in Heads(tr) :
    /\ \A p \in {tr[b].l, tr[b].r, tr[b].ch, tr[b].pa} : p = 0 \/ IsHead(tr, p)
    /\ tr[b].o \in 0..Len(ls) /\ tr[b].i \in 0..Len(ls)

(* each head except block 1 is referenced by exactly one left/right/child  *)
(* pointer, block 1 by none                                                *)
Refs(tr, b) ==
  Cardinality({ a \in Heads(tr) : tr[a].l = b }) + Cardinality({ a \in Heads(tr) : tr[a].r = b })
  + Cardinality({ a \in Heads(tr) : tr[a].ch = b })
RefOnceOK(tr) ==
  \A b \in Heads(tr) : Refs(tr, b) = (IF b = 1 THEN 0 ELSE 1)

(* sibling sets are strict BSTs on whole stems, with consistent parents *)
RECURSIVE BstOK(_, _, _, _, _)
BstOK(tr, b, lo, hi, par) ==     \* all stems in the subtree strictly between lo and hi
  \/ b = 0
  \/ /\ tr[b].s > lo /\ tr[b].s < hi
     /\ tr[b].pa = par
     /\ BstOK(tr, tr[b].l, lo, tr[b].s, par)
     /\ BstOK(tr, tr[b].r, tr[b].s, hi, par)
BstRoots(tr) == (IF Len(tr) > 0 THEN {1} ELSE {}) \cup { tr[b].ch : b \in { h \in Heads(tr) : tr[h].ch # 0 } }
BstAllOK(tr) ==
  /\ Len(tr) > 0 => BstOK(tr, 1, 0, NStems + 1, 0)
  /\ \A b \in Heads(tr) : tr[b].ch # 0 => BstOK(tr, tr[b].ch, 0, NStems + 1, b)

LinkStoreOK(tr, ls) ==
  \A k \in 1..Len(ls) : IsHead(tr, ls[k].tg) /\ ls[k].pv \in 0..(k - 1)

TstInv(tr, ls) ==
  /\ BlockShapeOK(tr)
  /\ PointersOK(tr, ls)
  /\ RefOnceOK(tr)
  /\ BstAllOK(tr)
  /\ LinkStoreOK(tr, ls)

(* which clause fails (for verdict messages) *)
TstInvFailure(tr, ls) ==
  IF ~BlockShapeOK(tr) THEN "blockshape"
  ELSE IF ~PointersOK(tr, ls) THEN "pointers"
  ELSE IF ~RefOnceOK(tr) THEN "refonce"
  ELSE IF ~BstAllOK(tr) THEN "bst"
  ELSE IF ~LinkStoreOK(tr, ls) THEN "linkstore"
  ELSE ""

(***************************************************************************)
(* Abstraction: what the blocks mean                                       *)
(***************************************************************************)
KnownOf(tr)   == { Windup(tr, b) : b \in Heads(tr) }
PagesOf(tr)   == { Windup(tr, b) : b \in { h \in Heads(tr) : tr[h].pg } }
CrawledOf(tr) == { Windup(tr, b) : b \in { h \in Heads(tr) : tr[h].pg /\ tr[h].cr } }
WeOfBlocks(tr)  == { <<Windup(tr, b), tr[b].we>> : b \in { h \in Heads(tr) : tr[h].we # 0 } }
RuleFlagsOf(tr) == { Windup(tr, b) : b \in { h \in Heads(tr) : tr[h].ru } }
(* link multigraph as a set of <<source lru, target lru, weight>> read from the out lists *)
OutLinksOf(tr, ls) ==
  UNION { LET w == Weighted(ls, tr[b].o) IN
          { <<Windup(tr, b), Windup(tr, w[j][1]), w[j][2]>> : j \in 1..Len(w) }
          : b \in { h \in Heads(tr) : tr[h].o # 0 } }
InLinksOf(tr, ls) ==
  UNION { LET w == Weighted(ls, tr[b].i) IN
          { <<Windup(tr, w[j][1]), Windup(tr, b), w[j][2]>> : j \in 1..Len(w) }
          : b \in { h \in Heads(tr) : tr[h].i # 0 } }

=============================================================================
