------------------------------ MODULE TraphAbs ------------------------------
(***************************************************************************)
(* The abstract machine: what a user of Traph relies on, with no blocks,   *)
(* pointers or traversal orders.  An abstract state is a record            *)
(*   pages   set of LRUs indexed as pages                                  *)
(*   crawled subset of pages marked crawled                                *)
(*   links   bag of submitted links: set of <<source, target, weight>>      *)
(*   we      set of <<prefix, webentity id>> (a function: one id/prefix)   *)
(*   flags   set of LRUs carrying the "a rule is anchored here" flag       *)
(*   lastId  last webentity id issued                                      *)
(*   known   every stem-prefix of every LRU named by a write request       *)
(* plus the RAM part (ram, def) passed alongside.  Each write request is a *)
(* function from abstract state (and arguments) to abstract state and      *)
(* report; TraphImpl refines it through AbsOf (checked by TLC: MC_core).   *)
(***************************************************************************)
EXTENDS Lru

EmptyAbs == [pages |-> {}, crawled |-> {}, links |-> {}, we |-> {}, flags |-> {},
             lastId |-> 0, known |-> {}]

Owned(A)      == { e[1] : e \in A.we }
WeAt(A, p)    == (CHOOSE e \in A.we : e[1] = p)[2]
WeIds(A)      == { e[2] : e \in A.we }
PrefixesOfWe(A, w) == { e[1] : e \in { x \in A.we : x[2] = w } }

(* E: stem length of the longest owned stem-prefix of l (0: none) *)
ELen(A, l) ==
  LET S == { n \in 1..Len(l) : Prefix(l, n) \in Owned(A) } IN
  IF S = {} THEN 0 ELSE CHOOSE n \in S : \A m \in S : m <= n

(* longest-prefix resolution (C04): 0 = the library's own error *)
Resolve(A, l)       == IF ELen(A, l) = 0 THEN 0 ELSE WeAt(A, Prefix(l, ELen(A, l)))
ResolvePrefix(A, l) == Prefix(l, ELen(A, l))

(* K: longest prefix proposed by the rules anchored on flagged stem-prefixes *)
RulePositions(A, l) == { n \in 1..Len(l) : Prefix(l, n) \in A.flags }
RamComplete(A, ram, l) == \A n \in RulePositions(A, l) : Prefix(l, n) \in DOMAIN ram
KLen(A, ram, l) ==
  LET S == { Match(ram[Prefix(l, n)], l) : n \in RulePositions(A, l) } IN
  IF S = {} THEN 0 ELSE CHOOSE n \in S : \A m \in S : m <= n

(* the decision of C06: stem length of the prefix to create, 0 = nothing;  *)
(* the default rule is consulted only when no rule proposes anything and   *)
(* no webentity exists above                                               *)
CreateLen(A, ram, def, l) ==
  LET E == ELen(A, l)  K == KLen(A, ram, l) IN
  IF E > 0 /\ K <= E THEN 0
  ELSE IF K > 0 THEN K
  ELSE Match(def, l)

(* what get_potential_prefix answers: max(E, K) as a prefix, <<>> if none *)
PotentialPrefix(A, ram, def, l) ==
  LET c == CreateLen(A, ram, def, l) IN
  IF c > 0 THEN Prefix(l, c) ELSE ResolvePrefix(A, l)

(* attach a fresh id to those of the given prefixes that are not owned *)
Attach(A, prefixes) ==     \* prefixes: sequence; returns [A, created]
  LET valid == SelectSeq(DedupSeq(prefixes), LAMBDA p : p \notin Owned(A))
      A1 == [A EXCEPT !.known = @ \cup PrefixClosure(SeqToSet(prefixes))]
  IN IF valid = <<>> THEN [A |-> A1, created |-> <<>>]
     ELSE LET id == A.lastId + 1 IN
          [A |-> [A1 EXCEPT !.lastId = id,
                            !.we = @ \cup { <<valid[j], id>> : j \in 1..Len(valid) }],
           created |-> <<[id |-> id, prefixes |-> valid]>>]

(* the link bag *)
BagPairs(L) == { <<e[1], e[2]>> : e \in L }
BagW(L, pr) == IF pr \in BagPairs(L) THEN (CHOOSE e \in L : e[1] = pr[1] /\ e[2] = pr[2])[3] ELSE 0
CountIn(q, x) == Cardinality({ j \in 1..Len(q) : q[j] = x })
AddPairs(L, pairs) ==
  { <<pr[1], pr[2], BagW(L, pr) + CountIn(pairs, pr)>> : pr \in BagPairs(L) \cup SeqToSet(pairs) }
RECURSIVE SumW(_)
SumW(L) == IF L = {} THEN 0 ELSE LET e == CHOOSE x \in L : TRUE IN e[3] + SumW(L \ {e})

(***************************************************************************)
(* Page insertion (the unit every page-writing request is built from)      *)
(***************************************************************************)
AbsPage(A, ram, def, l, crawled) ==    \* returns [A, pages, created, exc]
  LET A1 == [A EXCEPT !.known = @ \cup Prefixes(l),
                      !.pages = @ \cup {l},
                      !.crawled = IF crawled THEN @ \cup {l} ELSE @]
      n  == IF l \in A.pages THEN 0 ELSE 1
  IN IF ~RamComplete(A, ram, l)
     THEN [A |-> A1, pages |-> n, created |-> <<>>, exc |-> "KeyError"]
     ELSE LET c == CreateLen(A1, ram, def, l) IN
          IF c = 0 THEN [A |-> A1, pages |-> n, created |-> <<>>, exc |-> ""]
          ELSE LET t == Attach(A1, Variations(Prefix(l, c))) IN
               [A |-> t.A, pages |-> n, created |-> t.created, exc |-> ""]

RECURSIVE AbsPageSeq(_, _, _, _, _, _)
AbsPageSeq(A, ram, def, ps, i, acc) ==   \* ps: sequence of [l, cr]
  IF i > Len(ps) THEN [A |-> A, pages |-> acc.pages, created |-> acc.created, exc |-> ""]
  ELSE LET r == AbsPage(A, ram, def, ps[i].l, ps[i].cr) IN
       IF r.exc # "" THEN [A |-> r.A, pages |-> acc.pages + r.pages,
                           created |-> acc.created \o r.created, exc |-> r.exc]
       ELSE AbsPageSeq(r.A, ram, def, ps, i + 1,
                       [pages |-> acc.pages + r.pages, created |-> acc.created \o r.created])
AbsPages(A, ram, def, ps) == AbsPageSeq(A, ram, def, ps, 1, [pages |-> 0, created |-> <<>>])

AbsAddPage(A, ram, def, l, cr) == AbsPage(A, ram, def, l, cr)
AbsAddPages(A, ram, def, ls, cr) ==
  AbsPages(A, ram, def, [j \in 1..Len(ls) |-> [l |-> ls[j], cr |-> cr]])

(* add_links: every end point becomes a page (first mention first), then   *)
(* one link per submitted pair                                             *)
RECURSIVE PairEnds(_)
PairEnds(pairs) ==
  IF pairs = <<>> THEN <<>> ELSE <<pairs[1][1], pairs[1][2]>> \o PairEnds(Tail(pairs))
AbsAddLinks(A, ram, def, pairs) ==
  LET ends == DedupSeq(PairEnds(pairs))
      r == AbsPages(A, ram, def, [j \in 1..Len(ends) |-> [l |-> ends[j], cr |-> FALSE]])
  IN IF r.exc # "" THEN r ELSE [r EXCEPT !.A.links = AddPairs(@, pairs)]

(* index_batch_crawl: sources are crawled pages, targets plain pages, in   *)
(* the order the batch mentions them; a source met earlier as a target     *)
(* just gets its crawled mark                                              *)
RECURSIVE CrawlMentions(_, _)
CrawlMentions(data, seen) ==    \* sequence of [l, cr] for first mentions + later crawl marks
  IF data = <<>> THEN <<>>
  ELSE LET src == data[1].src
           tg  == DedupSeq(data[1].tgts)
           newT == SelectSeq(tg, LAMBDA t : t \notin seen /\ t # src)
           selfT == SelectSeq(tg, LAMBDA t : t = src)
       IN <<[l |-> src, cr |-> TRUE]>>
          \o [j \in 1..Len(newT) |-> [l |-> newT[j], cr |-> FALSE]]
          \o CrawlMentions(Tail(data), seen \cup {src} \cup SeqToSet(tg))
RECURSIVE CrawlLinkPairs(_)
CrawlLinkPairs(data) ==
  IF data = <<>> THEN <<>>
  ELSE [j \in 1..Len(data[1].tgts) |-> <<data[1].src, data[1].tgts[j]>>] \o CrawlLinkPairs(Tail(data))
AbsIndexBatchCrawl(A, ram, def, data) ==
  LET r == AbsPages(A, ram, def, CrawlMentions(data, {})) IN
  IF r.exc # "" THEN r ELSE [r EXCEPT !.A.links = AddPairs(@, CrawlLinkPairs(data))]

(***************************************************************************)
(* Webentity edits                                                         *)
(***************************************************************************)
NoReport(A, exc) == [A |-> A, pages |-> 0, created |-> <<>>, exc |-> exc]
Named(A, S) == [A EXCEPT !.known = @ \cup PrefixClosure(S)]

AbsCreateWe(A, prefixes) ==      \* refused iff some prefix is already attached
  IF \E j \in 1..Len(prefixes) : prefixes[j] \in Owned(A)
  THEN NoReport(Named(A, SeqToSet(prefixes)), "TraphException")
  ELSE LET t == Attach(A, prefixes) IN [A |-> t.A, pages |-> 0, created |-> t.created, exc |-> ""]

AbsDeleteWe(A, weid, prefixes) ==
  IF \E j \in 1..Len(prefixes) :
       prefixes[j] \notin A.known \/ prefixes[j] \notin Owned(A) \/ WeAt(A, prefixes[j]) # weid
  THEN NoReport(A, "TraphException")
  ELSE NoReport([A EXCEPT !.we = { e \in @ : e[1] \notin SeqToSet(prefixes) }], "")

RECURSIVE AbsUnsetUnchecked(_, _, _)
AbsUnsetUnchecked(A, ps, i) ==
  IF i > Len(ps) THEN NoReport(A, "")
  ELSE IF ps[i] \notin A.known THEN NoReport(A, "AttributeError")
  ELSE AbsUnsetUnchecked([A EXCEPT !.we = { e \in @ : e[1] # ps[i] }], ps, i + 1)
AbsDeleteWeUnchecked(A, prefixes) == AbsUnsetUnchecked(A, DedupSeq(prefixes), 1)

AbsAddPrefix(A, p, weid) ==
  IF p \in Owned(A) THEN NoReport(Named(A, {p}), "TraphException")
  ELSE NoReport([Named(A, {p}) EXCEPT !.we = @ \cup {<<p, weid>>}], "")

AbsRemovePrefix(A, p, weid) ==
  IF weid = 0 \/ (p \in Owned(A) /\ WeAt(A, p) = weid)
  THEN NoReport([Named(A, {p}) EXCEPT !.we = { e \in @ : e[1] # p }], "")
  ELSE NoReport(Named(A, {p}), "TraphException")

AbsMovePrefix(A, p, target, source) ==
  LET r == AbsRemovePrefix(A, p, source) IN
  IF r.exc # "" THEN r ELSE AbsAddPrefix(r.A, p, target)

(***************************************************************************)
(* Rules.  Installing a rule on a populated index has the effect of        *)
(* re-inserting every page beneath its anchor; `order` is the witness      *)
(* order (any permutation of the pages beneath the anchor).                *)
(***************************************************************************)
PagesUnder(A, anchor) == { p \in A.pages : IsPrefixOf(anchor, p) }

AbsAddRule(A, ram2, def, anchor, writeInTrie, order) ==   \* ram2: RAM with the new rule
  IF ~writeInTrie THEN NoReport(A, "")
  ELSE LET A1 == [Named(A, {anchor}) EXCEPT !.flags = @ \cup {anchor}] IN
       AbsPages(A1, ram2, def, [j \in 1..Len(order) |-> [l |-> order[j], cr |-> FALSE]])

RECURSIVE AbsInstallRules(_, _, _, _, _)
AbsInstallRules(A, rm, d, rules, i) ==     \* constructor / clear: rules installed on an empty index
  IF i > Len(rules) THEN A
  ELSE LET rm2 == RamSet(rm, rules[i].anchor, rules[i].rule) IN
       AbsInstallRules(AbsAddRule(A, rm2, d, rules[i].anchor, TRUE, <<>>).A, rm2, d, rules, i + 1)

AbsRemoveRule(A, ram, anchor) ==
  IF anchor \notin DOMAIN ram THEN NoReport(A, "KeyError")
  ELSE IF anchor \notin A.known THEN NoReport(A, "TraphException")
  ELSE NoReport([A EXCEPT !.flags = @ \ {anchor}], "")

(* Hierarchy (C13) *)
Parents(A, w) ==
  { e[2] : e \in { x \in A.we : x[2] # w /\ \E p \in PrefixesOfWe(A, w) : IsProperPrefixOf(x[1], p) } }
Children(A, w) ==
  { e[2] : e \in { x \in A.we : x[2] # w /\ \E p \in PrefixesOfWe(A, w) : IsProperPrefixOf(p, x[1]) } }

(* Pages of a webentity (C05): pages resolving to w *)
WePages(A, w) == { p \in A.pages : Resolve(A, p) = w }

(* Webentity network (C07): page links pushed through resolution *)
AbsNetwork(A, auto) ==
  LET prs == { <<Resolve(A, e[1]), Resolve(A, e[2])>> : e \in A.links }
      ok  == { pr \in prs : pr[1] # 0 /\ pr[2] # 0 /\ (auto \/ pr[1] # pr[2]) }
  IN { <<pr[1], pr[2], SumW({ e \in A.links : Resolve(A, e[1]) = pr[1] /\ Resolve(A, e[2]) = pr[2] })>> : pr \in ok }

(* Per-webentity page links (C08) *)
AbsWeLinks(A, w, inb, internal, outb) ==
  { e \in A.links : Resolve(A, e[1]) = w /\ ((internal /\ Resolve(A, e[2]) = w) \/ (outb /\ Resolve(A, e[2]) # w)) }
  \cup (IF inb THEN { e \in A.links : Resolve(A, e[2]) = w /\ Resolve(A, e[1]) # w } ELSE {})
AbsCited(A, w)  == { Resolve(A, e[2]) : e \in { x \in A.links : Resolve(A, x[1]) = w } }
AbsCiting(A, w) == { Resolve(A, e[1]) : e \in { x \in A.links : Resolve(A, x[2]) = w } }

(* Most linked pages (C20): distinct inbound sources, self included *)
InDegree(A, p) == Cardinality({ e \in A.links : e[2] = p })

=============================================================================
