------------------------------- MODULE TraphMC -------------------------------
(***************************************************************************)
(* The model TLC explores exhaustively: the block machine (TraphImpl) and  *)
(* the abstract machine (TraphAbs) run in lockstep on every history of     *)
(* requests over a small universe; the refinement mapping and every        *)
(* property invariant are evaluated in every reachable state.              *)
(*                                                                         *)
(* Configurations (spec/mc/<name>/) choose the universe (module Universe), *)
(* the request alphabet and the depth bound.                               *)
(***************************************************************************)
EXTENDS TraphImpl, TraphAbs, Queries, TLC, Json

CONSTANTS
  PageLrus,      \* LRUs submitted as pages
  PrefixLrus,    \* LRUs used as webentity prefixes in explicit edits
  PairSeqs,      \* batches for add_links: sequences of <<source, target>>
  CrawlBatches,  \* batches for index_batch_crawl: sequences of [src, tgts]
  AnchorRules,   \* set of [anchor, rule] that may be installed / removed
  DefRule,       \* default creation rule
  InitRules,     \* sequence of [anchor, rule] given to the constructor
  Ops,           \* enabled request names
  ProbeLrus,     \* LRUs used to probe resolution / lookup (present or absent)
  MaxLevel,      \* depth bound (number of requests + 1)
  EmitT          \* TRUE: print the history of every transition taken (transition cover export)

VARIABLES st, abs, ram, ok, nreq, hist
vars == <<st, abs, ram, ok, nreq, hist>>
(* hist records the requests made so far (for replaying behaviours into the real code);
   it is hidden from the state identity by VIEW View, so it does not multiply states *)
View == <<st, abs, ram, ok, nreq>>

Clean(s) == [s EXCEPT !.wlog = <<>>]

Init ==
  LET f == InstallRules(EmptyStore, EmptyRam, DefRule, InitRules, 1) IN
  /\ st  = Clean(f.st)
  /\ ram = f.ram
  /\ abs = AbsInstallRules(EmptyAbs, EmptyRam, DefRule, InitRules, 1)
  /\ ok  = TRUE
  /\ nreq = 0
  /\ hist = <<>>

Same(p, a) == p.exc = a.exc /\ p.pages = a.pages /\ p.created = a.created

Step(p, a) == /\ st' = Clean(p.st) /\ abs' = a.A /\ ok' = Same(p, a)
Log(e) == /\ hist' = Append(hist, e)
          /\ (EmitT => PrintT(<<"BEHAVIOUR", ToJson([h |-> Append(hist, e)])>>))

DoAddPage ==
  /\ "AddPage" \in Ops
  /\ \E l \in PageLrus, cr \in BOOLEAN :
       Step(AddPageReq(st, ram, DefRule, l, cr), AbsAddPage(abs, ram, DefRule, l, cr))
       /\ Log([op |-> "AddPage", l |-> l, cr |-> cr])
  /\ UNCHANGED ram

DoAddPages ==
  /\ "AddPages" \in Ops
  /\ \E l1 \in PageLrus, l2 \in PageLrus, cr \in BOOLEAN :
       Step(AddPagesReq(st, ram, DefRule, <<l1, l2>>, cr), AbsAddPages(abs, ram, DefRule, <<l1, l2>>, cr))
       /\ Log([op |-> "AddPages", ls |-> <<l1, l2>>, cr |-> cr])
  /\ UNCHANGED ram

DoAddLinks ==
  /\ "AddLinks" \in Ops
  /\ \E ps \in PairSeqs :
       Step(AddLinksReq(st, ram, DefRule, ps), AbsAddLinks(abs, ram, DefRule, ps))
       /\ Log([op |-> "AddLinks", pairs |-> ps])
  /\ UNCHANGED ram

DoCrawl ==
  /\ "IndexBatchCrawl" \in Ops
  /\ \E d \in CrawlBatches :
       Step(IndexBatchCrawlReq(st, ram, DefRule, d), AbsIndexBatchCrawl(abs, ram, DefRule, d))
       /\ Log([op |-> "IndexBatchCrawl", data |-> d])
  /\ UNCHANGED ram

DoCreateWe ==
  /\ "CreateWe" \in Ops
  /\ \E p \in PrefixLrus :
       Step(CreateWebentityReq(st, <<p>>), AbsCreateWe(abs, <<p>>))
       /\ Log([op |-> "CreateWe", ps |-> <<p>>])
  /\ UNCHANGED ram

DoCreateWe2 ==
  /\ "CreateWe2" \in Ops
  /\ \E p \in PrefixLrus, q \in PrefixLrus :
       Step(CreateWebentityReq(st, <<p, q>>), AbsCreateWe(abs, <<p, q>>))
       /\ Log([op |-> "CreateWe", ps |-> <<p, q>>])
  /\ UNCHANGED ram

DoDeleteWe ==
  /\ "DeleteWe" \in Ops
  /\ \E w \in WeIds(abs) \cup {1} :
       \E ps \in { SetToSortedSeq(PrefixesOfWe(abs, w)) } \cup { <<p>> : p \in PrefixLrus } :
         Step(DeleteWebentityReq(st, w, ps), AbsDeleteWe(abs, w, ps))
         /\ Log([op |-> "DeleteWe", id |-> w, ps |-> ps])
  /\ UNCHANGED ram

DoAddPrefix ==
  /\ "AddPrefix" \in Ops
  /\ \E p \in PrefixLrus, w \in WeIds(abs) \cup {1} :
       Step(AddPrefixReq(st, p, w), AbsAddPrefix(abs, p, w))
       /\ Log([op |-> "AddPrefix", p |-> p, id |-> w])
  /\ UNCHANGED ram

DoRemovePrefix ==
  /\ "RemovePrefix" \in Ops
  /\ \E p \in PrefixLrus, w \in WeIds(abs) \cup {0} :
       Step(RemovePrefixReq(st, p, w), AbsRemovePrefix(abs, p, w))
       /\ Log([op |-> "RemovePrefix", p |-> p, id |-> w])
  /\ UNCHANGED ram

DoMovePrefix ==
  /\ "MovePrefix" \in Ops
  /\ \E p \in PrefixLrus, w \in WeIds(abs) \cup {1}, s \in WeIds(abs) \cup {0} :
       Step(MovePrefixReq(st, p, w, s), AbsMovePrefix(abs, p, w, s))
       /\ Log([op |-> "MovePrefix", p |-> p, to |-> w, frm |-> s])
  /\ UNCHANGED ram

DoAddRule ==
  /\ "AddRule" \in Ops
  /\ \E ar \in AnchorRules :
       LET r == AddRuleReq(st, ram, DefRule, ar.anchor, ar.rule, TRUE)
           n == LruNode(st.trie, ar.anchor)
           order == IF n = 0 THEN <<>> ELSE PagesBeneath(st.trie, n, ar.anchor)
       IN /\ Step(r.res, AbsAddRule(abs, r.ram, DefRule, ar.anchor, TRUE, order))
          /\ Log([op |-> "AddRule", anchor |-> ar.anchor, rule |-> ar.rule, wr |-> TRUE])
          /\ ram' = r.ram
          \* the witness order is a permutation of the abstract pages beneath the anchor
          /\ Assert(SeqToSet(order) = PagesUnder(abs, ar.anchor) /\ Len(order) = Cardinality(SeqToSet(order)),
                    "AddRule: witness order is not a permutation of the pages beneath the anchor")

DoRemoveRule ==
  /\ "RemoveRule" \in Ops
  /\ \E ar \in AnchorRules :
       LET r == RemoveRuleReq(st, ram, ar.anchor) IN
       /\ Step(r.res, AbsRemoveRule(abs, ram, ar.anchor))
       /\ Log([op |-> "RemoveRule", anchor |-> ar.anchor])
       /\ ram' = r.ram

(* Life cycle (C11, C12).  Closing and reopening an on-disk index touches neither file; the   *)
(* rules are re-supplied by the caller and held in RAM only - all of them, or with one         *)
(* forgotten (its flag stays in the trie: pages beneath it are then refused, in both machines). *)
RamSeq(rm) == LET a == SetToSortedSeq(DOMAIN rm) IN [j \in 1..Len(a) |-> [anchor |-> a[j], rule |-> rm[a[j]]]]
DoReopen ==
  /\ "Reopen" \in Ops
  /\ \E drop \in {<<>>} \cup { <<a>> : a \in DOMAIN ram } :
       /\ ram' = IF drop = <<>> THEN ram ELSE RamDel(ram, drop[1])
       /\ Log([op |-> "Reopen", rules |-> RamSeq(ram')])
  /\ st' = st /\ abs' = abs /\ ok' = TRUE

(* clear(default, rules): both files back to their headers, the id counter back to zero, the  *)
(* given rules installed as by the constructor                                                *)
DoClear ==
  /\ "Clear" \in Ops
  /\ \E rules \in {<<>>} \cup { <<ar>> : ar \in AnchorRules } :
       LET f == FreshIndex(DefRule, rules) IN
       /\ st' = Clean(f.st) /\ ram' = f.ram
       /\ abs' = AbsInstallRules(EmptyAbs, EmptyRam, DefRule, rules, 1)
       /\ ok' = TRUE
       /\ Log([op |-> "Clear", rules |-> rules])

Request ==
  \/ DoReopen \/ DoClear
  \/ DoAddPage \/ DoAddPages \/ DoAddLinks \/ DoCrawl \/ DoCreateWe \/ DoCreateWe2 \/ DoDeleteWe
  \/ DoAddPrefix \/ DoRemovePrefix \/ DoMovePrefix \/ DoAddRule \/ DoRemoveRule

Next == nreq < MaxLevel - 1 /\ nreq' = nreq + 1 /\ Request

Spec == Init /\ [][Next]_vars

(* n counts requests; it is part of the state so that the bound is exact and the
   explored set deterministic under parallel BFS (level labels are not) *)
Bound == nreq <= MaxLevel - 1

(* behaviour export: every distinct state prints the (shortest) history that reached it;
   in simulation mode, every behaviour prints its history when it reaches the bound *)
EmitAll  == PrintT(<<"BEHAVIOUR", ToJson([h |-> hist])>>)
EmitFull == nreq = MaxLevel - 1 => PrintT(<<"BEHAVIOUR", ToJson([h |-> hist])>>)

(***************************************************************************)
(* Invariants                                                              *)
(***************************************************************************)
ReportsAgree == ok     \* bind: block machine and abstract machine report the same

(* refinement mapping: the blocks mean the abstract state *)
Refines ==
  /\ abs.pages   = PagesOf(st.trie)
  /\ abs.crawled = CrawledOf(st.trie)
  /\ abs.we      = WeOfBlocks(st.trie)
  /\ abs.flags   = RuleFlagsOf(st.trie)
  /\ abs.lastId  = st.lastId
  /\ abs.known   = KnownOf(st.trie)
  /\ abs.links   = OutLinksOf(st.trie, st.ls)

(* C02 *)
Structure == TstInv(st.trie, st.ls)
Findable ==
  \A l \in ProbeLrus \cup abs.known :
    LET n == LruNode(st.trie, l) IN
    /\ (n # 0) = (l \in abs.known)
    /\ n # 0 => Windup(st.trie, n) = l
DfsComplete ==
  LET d == DfsRoot(st.trie) IN
  /\ Len(d) = Cardinality(abs.known)
  /\ { d[j][2] : j \in 1..Len(d) } = abs.known
  /\ \A j \in 1..Len(d) : Windup(st.trie, d[j][1]) = d[j][2]

(* C01 *)
PageSet ==
  LET d == DfsRoot(st.trie)
      pg == SelectSeq(d, LAMBDA e : st.trie[e[1]].pg)
  IN /\ { pg[j][2] : j \in 1..Len(pg) } = abs.pages
     /\ Len(pg) = Cardinality(abs.pages)
     /\ Cardinality(PageBlocks(st.trie)) = Cardinality(abs.pages)     \* count_pages (linear scan)
     /\ abs.crawled \subseteq abs.pages

(* C03 *)
LinkSymmetry ==
  /\ InLinksOf(st.trie, st.ls) = OutLinksOf(st.trie, st.ls)
  /\ Len(st.ls) = 2 * SumW(abs.links)
  /\ \A e \in abs.links : e[1] \in abs.pages /\ e[2] \in abs.pages

(* C04 *)
Resolution ==
  \A l \in ProbeLrus \cup abs.pages :
    LET f == FollowLru(st.trie, l) IN
    /\ f.hist.we = Resolve(abs, l)
    /\ f.hist.wepos = ELen(abs, l)
OneIdPerPrefix == Cardinality(Owned(abs)) = Cardinality(abs.we)

(* C06: after any request, every page with a rule or default proposal is    *)
(* covered at least as deep as the proposal (creation is idempotent)        *)
Covered ==
  \A l \in abs.pages :
    RamComplete(abs, ram, l) => CreateLen(abs, ram, DefRule, l) = 0

(* C12 *)
IdsBounded == \A w \in WeIds(abs) : w <= abs.lastId \/ w = 1

(* C13: every proper ancestor of an owned node can have child webentities *)
FlagInv ==
  \A b \in Heads(st.trie) :
    st.trie[b].we # 0 =>
      \A a \in SeqToSet(ParentChain(st.trie, b)) : ~st.trie[a].nc

(* C19 *)
RECURSIVE SumBlocksMC(_)
SumBlocksMC(K) ==
  IF K = {} THEN 0 ELSE LET l == CHOOSE x \in K : TRUE IN NBlocks(l[Len(l)]) + SumBlocksMC(K \ {l})
Accounting ==
  /\ Len(st.trie) = SumBlocksMC(abs.known)
  /\ Len(st.ls) = 2 * SumW(abs.links)

(***************************************************************************)
(* The query algorithms compute the declarative answers (C05 C07 C08 C09    *)
(* C10 C13 C20), in every reachable state, every webentity, every switch.   *)
(***************************************************************************)
PsOf(w) == SetToSortedSeq(PrefixesOfWe(abs, w))
RevPs(w) == LET p == PsOf(w) IN [i \in 1..Len(p) |-> p[Len(p) + 1 - i]]

WePagesInv ==        \* C05
  \A w \in WeIds(abs) :
    LET got == ConcatWeDfs(st.trie, PsOf(w), 1) IN
    /\ SeqToSet(got) = WePages(abs, w)
    /\ Len(got) = Cardinality(WePages(abs, w))
    /\ SeqToSet(ConcatWeDfs(st.trie, RevPs(w), 1)) = WePages(abs, w)

NetworkInv ==        \* C07
  \A auto \in BOOLEAN :
    /\ NetFast(st.trie, st.ls, TRUE, auto) = AbsNetwork(abs, auto)
    /\ NetSlow(st.trie, st.ls, TRUE, auto) = AbsNetwork(abs, auto)
    /\ NetFast(st.trie, st.ls, FALSE, auto) = Transpose(AbsNetwork(abs, auto))
    /\ NetSlow(st.trie, st.ls, FALSE, auto) = Transpose(AbsNetwork(abs, auto))

WeLinksInv ==        \* C08
  \A w \in WeIds(abs) : \A inb \in BOOLEAN, internal \in BOOLEAN, outb \in BOOLEAN :
    (inb \/ internal \/ outb) =>
      WeLinksBlocks(st.trie, st.ls, w, PsOf(w), inb, internal, outb) = AbsWeLinks(abs, w, inb, internal, outb)

HierarchyInv ==      \* C13
  \A w \in WeIds(abs) :
    /\ ChildrenBlocks(st.trie, w, PsOf(w)) = Children(abs, w)
    /\ ParentsBlocks(st.trie, w, PsOf(w)) = Parents(abs, w)

(* C09: paging with every page size, feeding each token back *)
RECURSIVE PageThrough(_, _, _, _, _, _, _, _)
PageThrough(tr, ps, k, co, hasTok, ti, tpath, fuel) ==   \* sequence of answers
  IF fuel = 0 THEN <<>>
  ELSE LET r == PagPages(tr, ps, k, ti, hasTok, tpath, co) IN
       IF r.done THEN <<r>> ELSE <<r>> \o PageThrough(tr, ps, k, co, TRUE, r.ti, r.tpath, fuel - 1)
RECURSIVE Flatten(_)
Flatten(ans) == IF ans = <<>> THEN <<>> ELSE ans[1].pages \o Flatten(Tail(ans))
RECURSIVE ByPrefix(_, _, _)
ByPrefix(w, ps, i) ==    \* the pages of w, prefix by prefix, ascending within a prefix
  IF i > Len(ps) THEN <<>>
  ELSE LET own == { p \in WePages(abs, w) : IsPrefixOf(ps[i], p) /\
                     \A q \in SeqToSet(ps) : IsPrefixOf(q, p) => Len(q) <= Len(ps[i]) }
       IN SortedSeq(own) \o ByPrefix(w, ps, i + 1)
PaginationInv ==
  \A w \in WeIds(abs) : \A co \in BOOLEAN :
    LET ps == PsOf(w)
        want == SelectSeq(ByPrefix(w, ps, 1), LAMBDA p : ~co \/ p \in abs.crawled)
        n == Len(want)
    IN \A k \in 1..(n + 1) :
         LET ans == PageThrough(st.trie, ps, k, co, FALSE, 0, <<>>, n + 2)
             flat == Flatten(ans)
         IN /\ [j \in 1..Len(flat) |-> flat[j].l] = want
            /\ ans[Len(ans)].done
            /\ \A j \in 1..(Len(ans) - 1) : ~ans[j].done /\ Len(ans[j].pages) = k
            /\ \A j \in 1..Len(flat) : flat[j].cr = (flat[j].l \in abs.crawled)

(* C10 *)
RECURSIVE LinkThrough(_, _, _, _, _, _, _, _, _, _)
LinkThrough(tr, ls, ps, w, internal, outb, k, hasTok, tok, fuel) ==
  IF fuel = 0 THEN <<>>
  ELSE LET r == PagLinks(tr, ls, ps, w, internal, outb, k, tok[1], hasTok, tok[2]) IN
       IF r.done \/ r.tnone THEN <<r>>
       ELSE <<r>> \o LinkThrough(tr, ls, ps, w, internal, outb, k, TRUE, <<r.ti, r.tpath>>, fuel - 1)
RECURSIVE FlattenLinks(_)
FlattenLinks(ans) == IF ans = <<>> THEN <<>> ELSE ans[1].links \o FlattenLinks(Tail(ans))
PagLinksInv ==
  \A w \in WeIds(abs) : \A io \in { <<TRUE, FALSE>>, <<TRUE, TRUE>>, <<FALSE, TRUE>> } :
    LET ps == PsOf(w)
        full == AbsWeLinks(abs, w, FALSE, io[1], io[2])
        nsrc == Cardinality({ e[1] : e \in full })
    IN \A k \in 1..(nsrc + 1) :
         LET ans == LinkThrough(st.trie, st.ls, ps, w, io[1], io[2], k, FALSE, <<0, <<>>>>, nsrc + 2)
             flat == FlattenLinks(ans)
         IN /\ SeqToSet(flat) = full
            /\ Len(flat) = Cardinality(full)
            /\ ans[Len(ans)].done
            /\ \A j \in 1..(Len(ans) - 1) : ~ans[j].done /\ ~ans[j].tnone /\ ans[j].n = k

(* get_page_links, links_iter, counting scans and metrics compute the declarative figures *)
PageLinksInv ==
  \A l \in abs.pages \cup ProbeLrus : \A inb \in BOOLEAN, internal \in BOOLEAN, outb \in BOOLEAN :
    LET got == PageLinksBlocks(st.trie, st.ls, l, inb, internal, outb)
        want == (IF outb THEN { e \in abs.links : e[1] = l /\ e[2] # l } ELSE {})
                \cup (IF internal THEN { e \in abs.links : e[1] = l /\ e[2] = l } ELSE {})
                \cup (IF inb THEN { e \in abs.links : e[2] = l /\ e[1] # l } ELSE {})
    IN SeqToSet(got) = want /\ Len(got) = Cardinality(want)
ScansInv ==
  /\ CountPagesScan(st.trie) = Cardinality(abs.pages)
  /\ CountCrawledScan(st.trie) = Cardinality(abs.crawled)
  /\ CountLinksBlocks(st.ls) = SumW(abs.links)
  /\ SeqToSet(LinksIterBlocks(st.trie, st.ls, TRUE)) = BagPairs(abs.links)
  /\ { <<e[2], e[1]>> : e \in SeqToSet(LinksIterBlocks(st.trie, st.ls, FALSE)) } = BagPairs(abs.links)
  /\ LET m == TrieMetricsBlocks(st.trie) IN
       m.pages = Cardinality(abs.pages) /\ m.stems = Cardinality(abs.known) /\ m.nodes = m.stems + m.tails
  /\ LET x == LinksMetricsBlocks(st.trie, st.ls) IN
       x.maxout = SetMax({ Cardinality({ e \in abs.links : e[1] = p }) : p \in abs.pages })

(* C20 (with the known finding: a page nobody links to counts 1) *)
TopInv ==
  \A w \in WeIds(abs) : \A k \in 1..3 : \A depth \in {Unlimited, 0, 1} :
    LET ps == PsOf(w)
        top == TopBlocks(st.trie, st.ls, ps, k, depth)
        Eff(p) == IF InDegree(abs, p) = 0 THEN 1 ELSE InDegree(abs, p)
        Own(p) == CHOOSE q \in SeqToSet(ps) : IsPrefixOf(q, p) /\ \A q2 \in SeqToSet(ps) : IsPrefixOf(q2, p) => Len(q2) <= Len(q)
        cands == { p \in WePages(abs, w) : depth = Unlimited \/ Len(p) - Len(Own(p)) <= depth }
        listed == { top[j].l : j \in 1..Len(top) }
    IN /\ listed \subseteq cands /\ Len(top) = Cardinality(listed)
       /\ Len(top) = Min(k, Cardinality(cands))
       /\ \A j \in 1..Len(top) : top[j].n = Eff(top[j].l)
       /\ \A j \in 1..(Len(top) - 1) : top[j].n >= top[j + 1].n
       /\ \A p \in cands \ listed : \A j \in 1..Len(top) : Eff(p) <= top[j].n

(* action property: re-submitting known things allocates nothing (C19),     *)
(* blocks never move or disappear, ids only grow (C12)                      *)
Cleared == hist' # hist /\ hist'[Len(hist')].op = "Clear"
Monotone ==
  [][ Cleared \/
      /\ Len(st'.trie) >= Len(st.trie)
      /\ (abs'.known = abs.known => Len(st'.trie) = Len(st.trie))
      /\ st'.lastId >= st.lastId
      /\ \A b \in 1..Len(st.trie) : st'.trie[b].s = st.trie[b].s /\ st'.trie[b].c = st.trie[b].c
      /\ \A w \in WeIds(abs') \ WeIds(abs) : w > st.lastId \/ w \in WeIds(abs) \cup {1}
    ]_vars

(* C11: reopening changes nothing but the rules held in RAM; clearing gives exactly the index *)
(* the constructor gives (C12: ids start again from there)                                    *)
LifeCycle ==
  [][ /\ (hist' # hist /\ hist'[Len(hist')].op = "Reopen") => (st' = st /\ abs' = abs /\ DOMAIN ram' \subseteq DOMAIN ram)
      /\ Cleared => \E rules \in {<<>>} \cup { <<ar>> : ar \in AnchorRules } :
                      /\ st' = Clean(FreshIndex(DefRule, rules).st)
                      /\ st'.lastId = Cardinality(WeIds(abs'))
    ]_vars

=============================================================================
