----------------------------- MODULE TokenRows -----------------------------
(***************************************************************************)
(* Binding of module Token: rows recorded from the real helpers            *)
(* (build_pagination_token / parse_pagination_token) are judged against    *)
(* Encode / Decode.  row: id, i, path (moves), text (base-64 digit values  *)
(* of the token the code built), sep (the token had exactly one '#' and a  *)
(* decimal index equal to i), back (moves of the integer the code parsed   *)
(* back), backi, exc.                                                      *)
(***************************************************************************)
EXTENDS Token, TLC, Json, IOUtils
Batch == JsonDeserialize(IOEnv.VERIF_BATCH)
Rows == Batch.extra.rows
VARIABLE r
Init == r \in 1..Len(Rows)
Next == FALSE /\ r' = r
Spec == Init /\ [][Next]_r

FailNames(q) == LET f == SelectSeq(q, LAMBDA c : ~c[2]) IN [j \in 1..Len(f) |-> <<1, f[j][1]>>]
Clauses(R) ==
  FailNames(<<
    <<"C09.token.total",  R.exc = "">>,
    \* the property: what was built parses back to the same (prefix index, path)
    <<"C09.token.parse",  R.exc = "" => (R.backi = R.i /\ R.back = R.path)>>,
    \* the text format this specification describes (alphabet, digit grouping): drift only
    <<"bind.token.build",  R.exc = "" => (R.sep /\ R.text = Encode(R.path))>>,
    <<"bind.token.decode", R.exc = "" => Decode(R.text) = R.path>>
  >>)
Report == PrintT(<<"VERDICT", Rows[r].id, 1, Clauses(Rows[r])>>)
=============================================================================
