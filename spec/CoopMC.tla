------------------------------- MODULE CoopMC -------------------------------
(***************************************************************************)
(* Property C16 on the design: 2-3 generator requests advanced in turns,   *)
(* ALL interleavings of their steps.  In every state the files satisfy the *)
(* structural invariants and no step has failed; when all requests are     *)
(* done, pages, crawled marks and the link multigraph are those of the     *)
(* batches applied one after another, and in/out lists are symmetric.      *)
(***************************************************************************)
EXTENDS TraphCoop, TraphAbs, TLC

CONSTANTS Setup,     \* sequence of [l, cr] pages indexed before the generators start
          Gens,      \* sequence of generator requests (NewCrawl(..) / NewRule(..))
          DefRule

VARIABLES st, ram, gs
vars == <<st, ram, gs>>

Clean(s) == [s EXCEPT !.wlog = <<>>]

RECURSIVE SetupStore(_, _)
SetupStore(s, i) ==
  IF i > Len(Setup) THEN s ELSE SetupStore(PageStep(s, EmptyRam, DefRule, Setup[i].l, Setup[i].cr).st, i + 1)
Store0 == Clean(SetupStore(EmptyStore, 1))

Init == st = Store0 /\ ram = EmptyRam /\ gs = Gens

Advance(i) ==
  /\ ~gs[i].done
  /\ LET g    == gs[i]
         ram2 == IF g.kind = "rule" /\ g.phase = "start" THEN RamSet(ram, g.anchor, g.rule) ELSE ram
         r    == RunGen(st, ram2, DefRule, g)
     IN /\ st' = Clean(r.st)
        /\ ram' = ram2
        /\ gs' = [gs EXCEPT ![i] = r.g]

Next == \E i \in 1..Len(gs) : Advance(i)
Spec == Init /\ [][Next]_vars

AllDone == \A i \in 1..Len(gs) : gs[i].done

NoFail == \A i \in 1..Len(gs) : gs[i].exc = ""
Structure == TstInv(st.trie, st.ls)

(* the batches applied one after another, on the abstract machine *)
Abs0 == [EmptyAbs EXCEPT !.pages = PagesOf(Store0.trie), !.crawled = CrawledOf(Store0.trie),
                         !.links = OutLinksOf(Store0.trie, Store0.ls), !.we = WeOfBlocks(Store0.trie),
                         !.known = KnownOf(Store0.trie), !.lastId = Store0.lastId]
RECURSIVE Sequential(_, _)
Sequential(A, i) ==
  IF i > Len(Gens) THEN A
  ELSE IF Gens[i].kind = "crawl"
       THEN Sequential(AbsIndexBatchCrawl(A, EmptyRam, DefRule, Gens[i].data).A, i + 1)
       ELSE Sequential(A, i + 1)
Want == Sequential(Abs0, 1)

Final ==
  AllDone =>
    /\ PagesOf(st.trie) = Want.pages
    /\ CrawledOf(st.trie) = Want.crawled
    /\ OutLinksOf(st.trie, st.ls) = Want.links
    /\ InLinksOf(st.trie, st.ls) = Want.links
    /\ Len(st.ls) = 2 * SumW(Want.links)

(* nothing is ever lost on the way: pages and links only grow *)
Growing == [][ PagesOf(st.trie) \subseteq PagesOf(st'.trie)
               /\ KnownOf(st.trie) \subseteq KnownOf(st'.trie) ]_vars
=============================================================================
