----------------------------- MODULE CrashRows -----------------------------
(***************************************************************************)
(* Binding of property C18: the write log recorded from a real history is  *)
(* cut at every position (block granularity, and inside appended blocks),  *)
(* both files are materialized, and the real Traph is reopened on them.    *)
(* Each cut is a row:                                                      *)
(*   outcome  "refused" (the library's own error), "opened", or            *)
(*            "error:<exception>"                                          *)
(*   qfail    names of the traversals / queries that failed after opening  *)
(*   pages, links   what the reopened index reports                        *)
(*   hist     index of the completed history (its final pages and links)   *)
(*   files    (sampled) the decoded torn files, for TornInv                *)
(*   changed  number of bytes of the two files that differ after the       *)
(*            queries from what they were after opening (property C14 on   *)
(*            the index states that only a crash reaches)                  *)
(***************************************************************************)
EXTENDS Torn, TLC

Rows  == Batch.extra.rows
Hists == Batch.extra.hists
VARIABLE r
Init == r \in 1..Len(Rows)
Next == FALSE /\ r' = r
Spec == Init /\ [][Next]_r

FailNames(q) == LET f == SelectSeq(q, LAMBDA c : ~c[2]) IN [j \in 1..Len(f) |-> <<1, f[j][1]>>]
LSet(x) == { x[j] : j \in 1..Len(x) }
Trip(x) == { <<x[j].s, x[j].t, x[j].w>> : j \in 1..Len(x) }

Clauses(R) ==
  LET H == Hists[R.hist] IN
  FailNames(<<
    <<"C18.refuse_or_open", R.outcome \in {"refused", "opened"}>>,
    <<"C18.queries", R.outcome = "opened" => R.qfail = <<>>>>,
    <<"C18.subset.pages", R.outcome = "opened" => LSet(R.pages) \subseteq LSet(H.pages)>>,
    <<"C18.subset.links", R.outcome = "opened" => LinkLeq(Trip(R.links), Trip(H.links))>>,
    <<"C18.subset.inlinks", R.outcome = "opened" => LinkLeq(Trip(R.inlinks), Trip(H.links))>>,
    \* C14 on the states only a crash reaches: the queries above changed no byte of either file
    <<"C14.torn", R.outcome = "opened" => R.changed = 0>>,
    <<"bind.refusal", (R.partial \/ R.missing) = (R.outcome = "refused")>>,
    <<"bind.torninv", R.hasFiles => TornInv(R.trie, R.ls)>>
  >>)

Report == PrintT(<<"VERDICT", Rows[r].id, 1, Clauses(Rows[r])>>)
=============================================================================
