------------------------------ MODULE TraphCoop ------------------------------
(***************************************************************************)
(* Long-running requests as step-wise processes (property C16).            *)
(*                                                                         *)
(* A generator request runs from one yield point to the next in one atomic *)
(* step (RunGen); with TraphIteratorState.should_yield forced to "always", *)
(* every loop iteration of the Python generator is a yield point.  Several *)
(* generators are advanced in turns by a scheduler, so between two steps   *)
(* of one request the store may have been changed by another.              *)
(*                                                                         *)
(* The local state of a request holds what the Python frame holds: the     *)
(* position in the batch, the `pages` dict with the CACHED copy of each     *)
(* node object (block number + the block as it was last read), the target  *)
(* blocks of the current source, the inlinks multimap.  Every rewrite of a  *)
(* cached node is preceded by refresh() in the code; Bug = "NoRefresh..."  *)
(* drops one of them to show what the discipline protects (self-test).     *)
(***************************************************************************)
EXTENDS TraphImpl

CONSTANT Bug     \* "none" | "NoRefreshOut" | "NoRefreshIn"

(* ordered dict lru -> [b, c] (block number, cached copy) *)
CGet(d, k) == d[CHOOSE j \in 1..Len(d) : d[j].k = k]
CHas(d, k) == \E j \in 1..Len(d) : d[j].k = k
(* ordered multimap target -> sources *)
MAdd(m, t, s) ==
  IF \E j \in 1..Len(m) : m[j].t = t
  THEN [j \in 1..Len(m) |-> IF m[j].t = t THEN [m[j] EXCEPT !.srcs = Append(@, s)] ELSE m[j]]
  ELSE Append(m, [t |-> t, srcs |-> <<s>>])

(***************************************************************************)
(* index_batch_crawl_iter(data, yield_frequency = 1)                       *)
(***************************************************************************)
NewCrawl(data) ==
  [kind |-> "crawl", data |-> data, i |-> 1, j |-> 1, phase |-> "src", d |-> <<>>, tb |-> <<>>,
   inl |-> <<>>, ii |-> 1, src |-> 0, pages |-> 0, created |-> <<>>, done |-> FALSE, exc |-> ""]

(* link_store.add_links given the node OBJECT (block number + its data) *)
AddLinkListObj(st, b, copy, blocks, out) ==
  IF blocks = <<>> THEN st
  ELSE LET a == AppendStubs(st, blocks, 1, IF out THEN copy.o ELSE copy.i) IN
       WT(a.st, b, IF out THEN [copy EXCEPT !.o = a.last] ELSE [copy EXCEPT !.i = a.last])

RECURSIVE RunCrawl(_, _, _, _)
RunCrawl(st, ram, def, g) ==      \* returns [st, g] at the next yield point
  IF g.phase = "src" THEN
    IF g.i > Len(g.data)
    THEN RunCrawl(st, ram, def, [g EXCEPT !.phase = "in", !.ii = 1])
    ELSE
      LET src == g.data[g.i].src IN
      IF CHas(g.d, src)
      THEN LET e == CGet(g.d, src)
               \* `if not source_node.is_crawled()` looks at the cached copy
               st1 == IF ~e.c.cr THEN WT(st, e.b, [st.trie[e.b] EXCEPT !.cr = TRUE]) ELSE st
           IN RunCrawl(st1, ram, def, [g EXCEPT !.phase = "tgt", !.j = 1, !.tb = <<>>, !.src = e.b])
      ELSE LET p == PageStep(st, ram, def, src, TRUE) IN
           IF p.exc # "" THEN [st |-> p.st, g |-> [g EXCEPT !.done = TRUE, !.exc = p.exc]]
           ELSE RunCrawl(p.st, ram, def,
                         [g EXCEPT !.phase = "tgt", !.j = 1, !.tb = <<>>, !.src = p.node,
                                   !.d = Append(@, [k |-> src, b |-> p.node, c |-> p.st.trie[p.node]]),
                                   !.pages = @ + p.pages, !.created = @ \o p.created])
  ELSE IF g.phase = "tgt" THEN
    LET src == g.data[g.i].src
        tg  == g.data[g.i].tgts
    IN IF g.j > Len(tg)
       THEN \* source_node.refresh(); store.add_outlinks(source_node, target_blocks)
            LET copy == IF Bug = "NoRefreshOut" THEN CGet(g.d, src).c ELSE st.trie[g.src]
                st1  == AddLinkListObj(st, g.src, copy, g.tb, TRUE)
            IN RunCrawl(st1, ram, def, [g EXCEPT !.phase = "src", !.i = @ + 1])
       ELSE LET t == tg[g.j] IN
            IF CHas(g.d, t)
            THEN RunCrawl(st, ram, def, [g EXCEPT !.tb = Append(@, CGet(g.d, t).b), !.j = @ + 1,
                                                   !.inl = MAdd(@, t, src)])
            ELSE LET p == PageStep(st, ram, def, t, FALSE) IN
                 IF p.exc # "" THEN [st |-> p.st, g |-> [g EXCEPT !.done = TRUE, !.exc = p.exc]]
                 ELSE \* a new target: yield point
                      [st |-> p.st,
                       g |-> [g EXCEPT !.tb = Append(@, p.node), !.j = @ + 1, !.inl = MAdd(@, t, src),
                                       !.d = Append(@, [k |-> t, b |-> p.node, c |-> p.st.trie[p.node]]),
                                       !.pages = @ + p.pages, !.created = @ \o p.created]]
  ELSE IF g.phase = "in" THEN
    IF g.ii > Len(g.inl)
    THEN [st |-> st, g |-> [g EXCEPT !.phase = "end", !.done = TRUE]]      \* the finalize yield
    ELSE LET e == g.inl[g.ii]
             ent == CGet(g.d, e.t)
             copy == IF Bug = "NoRefreshIn" THEN ent.c ELSE st.trie[ent.b]
             blocks == [x \in 1..Len(e.srcs) |-> CGet(g.d, e.srcs[x]).b]
         IN [st |-> AddLinkListObj(st, ent.b, copy, blocks, FALSE), g |-> [g EXCEPT !.ii = @ + 1]]
  ELSE [st |-> st, g |-> g]

(***************************************************************************)
(* add_webentity_creation_rule_iter(anchor, rule, write_in_trie = True)    *)
(* first step: add_lru, flag, write; then one step per node of dfs_iter    *)
(* (the traversal keeps a stack of blocks and pushes the pointers of the   *)
(* node AS READ BEFORE the page was re-inserted)                           *)
(***************************************************************************)
NewRule(anchor, rule) ==
  [kind |-> "rule", anchor |-> anchor, rule |-> rule, phase |-> "start", stack |-> <<>>, start |-> 0,
   pages |-> 0, created |-> <<>>, done |-> FALSE, exc |-> ""]

RunRuleVisit(st, ram, def, g) ==
  IF g.stack = <<>> THEN [st |-> st, g |-> [g EXCEPT !.phase = "end", !.done = TRUE]]
  ELSE LET top  == g.stack[Len(g.stack)]
           rest == SubSeq(g.stack, 1, Len(g.stack) - 1)
           node == st.trie[top.b]                         \* node.read(block)
           cur  == Append(top.pre, node.s)
           p    == IF node.pg THEN PageStep(st, ram, def, cur, FALSE)
                   ELSE [st |-> st, pages |-> 0, created |-> <<>>, exc |-> ""]
           sib  == IF top.b # g.start
                   THEN (IF node.r # 0 THEN <<[b |-> node.r, pre |-> top.pre]>> ELSE <<>>)
                        \o (IF node.l # 0 THEN <<[b |-> node.l, pre |-> top.pre]>> ELSE <<>>)
                   ELSE <<>>
           ch   == IF node.ch # 0 THEN <<[b |-> node.ch, pre |-> cur]>> ELSE <<>>
       IN IF p.exc # "" THEN [st |-> p.st, g |-> [g EXCEPT !.done = TRUE, !.exc = p.exc]]
          ELSE [st |-> p.st, g |-> [g EXCEPT !.stack = rest \o sib \o ch,
                                             !.pages = @ + p.pages, !.created = @ \o p.created]]

RunRule(st, ram, def, g) ==       \* ram already contains the rule (set when the generator starts)
  IF g.phase = "start" THEN
    LET r   == AddLru(st, g.anchor, FALSE)
        st1 == WT(r.st, r.node, [r.st.trie[r.node] EXCEPT !.ru = TRUE])
        pre == SubSeq(g.anchor, 1, Len(g.anchor) - 1)
    IN RunRuleVisit(st1, ram, def, [g EXCEPT !.phase = "dfs", !.start = r.node,
                                            !.stack = <<[b |-> r.node, pre |-> pre]>>])
  ELSE IF g.phase = "dfs" THEN RunRuleVisit(st, ram, def, g)
  ELSE [st |-> st, g |-> g]

(***************************************************************************)
(* get_webentity_pages_iter / get_webentity_crawled_pages_iter(weid, ps):   *)
(* webentity_dfs_iter prefix by prefix; a yield point after every page met. *)
(* The traversal reads a node when it pops it and pushes that node's        *)
(* siblings and child only after it is resumed - from the copy read BEFORE  *)
(* the yield (pend).                                                        *)
(***************************************************************************)
NewPagesQuery(ps, onlyCrawled) ==
  [kind |-> "qpages", ps |-> ps, oc |-> onlyCrawled, pi |-> 0, start |-> 0, stack |-> <<>>,
   pend |-> [has |-> FALSE], acc |-> <<>>, phase |-> "run", pages |-> 0, created |-> <<>>,
   done |-> FALSE, exc |-> ""]

QPush(stack, start, pend) ==
  stack
  \o (IF pend.b # start
      THEN (IF pend.node.r # 0 THEN <<[b |-> pend.node.r, pre |-> pend.pre]>> ELSE <<>>)
           \o (IF pend.node.l # 0 THEN <<[b |-> pend.node.l, pre |-> pend.pre]>> ELSE <<>>)
      ELSE <<>>)
  \o (IF pend.rel /\ pend.node.ch # 0 THEN <<[b |-> pend.node.ch, pre |-> pend.cur]>> ELSE <<>>)

RECURSIVE QPagesLoop(_, _)
QPagesLoop(st, g) ==
  IF g.stack = <<>> THEN
    IF g.pi >= Len(g.ps) THEN [st |-> st, g |-> [g EXCEPT !.done = TRUE]]
    ELSE LET p == g.ps[g.pi + 1]
             n == LruNode(st.trie, p)
         IN IF n = 0 THEN [st |-> st, g |-> [g EXCEPT !.done = TRUE, !.exc = "TraphException"]]
            ELSE QPagesLoop(st, [g EXCEPT !.pi = @ + 1, !.start = n,
                                          !.stack = <<[b |-> n, pre |-> SubSeq(p, 1, Len(p) - 1)]>>])
  ELSE LET top  == g.stack[Len(g.stack)]
           rest == SubSeq(g.stack, 1, Len(g.stack) - 1)
           node == st.trie[top.b]
           rel  == top.b = g.start \/ node.we = 0
           cur  == Append(top.pre, node.s)
           pend == [has |-> TRUE, node |-> node, b |-> top.b, pre |-> top.pre, cur |-> cur, rel |-> rel]
       IN IF rel /\ node.pg
          THEN [st |-> st,
                g |-> [g EXCEPT !.stack = rest, !.pend = pend,
                                !.acc = IF g.oc /\ ~node.cr THEN @ ELSE Append(@, cur)]]
          ELSE QPagesLoop(st, [g EXCEPT !.stack = QPush(rest, g.start, pend)])

RunQPages(st, g) ==
  QPagesLoop(st, IF g.pend.has THEN [g EXCEPT !.stack = QPush(@, g.start, g.pend), !.pend = [has |-> FALSE]] ELSE g)

(***************************************************************************)
(* get_webentities_links_iter(out, include_auto) - the fast network query. *)
(* Phase 1 walks the whole trie carrying the nearest webentity down        *)
(* (dfs_with_webentity_iter, same stale-push discipline), records          *)
(* page -> webentity and the head of each page's link list AS READ THEN;   *)
(* a yield point after every page that has a webentity.  Phase 2 walks the *)
(* recorded heads; each list is read when its turn comes; a yield point    *)
(* after every edge counted.  Sources and targets are thus resolved at     *)
(* different moments (known finding F11: MC_coop_f11 exhibits it).         *)
(***************************************************************************)
NewNetQuery(out, auto) ==
  [kind |-> "qnet", out |-> out, auto |-> auto, phase |-> "p1", started |-> FALSE, stack |-> <<>>,
   pend |-> [has |-> FALSE], map |-> {}, ptrs |-> <<>>, pi |-> 1, cur |-> <<>>, curwe |-> 0,
   graph |-> {}, pages |-> 0, created |-> <<>>, done |-> FALSE, exc |-> ""]

NPush(stack, pend) ==
  stack
  \o (IF pend.node.r # 0 THEN <<[b |-> pend.node.r, we |-> pend.inh]>> ELSE <<>>)
  \o (IF pend.node.l # 0 THEN <<[b |-> pend.node.l, we |-> pend.inh]>> ELSE <<>>)
  \o (IF pend.node.ch # 0 THEN <<[b |-> pend.node.ch, we |-> pend.cw]>> ELSE <<>>)

GAdd(G, a, b, w) ==      \* graph[a][b] += w, the graph as a set of <<a, b, weight>>
  IF \E e \in G : e[1] = a /\ e[2] = b
  THEN { IF e[1] = a /\ e[2] = b THEN <<a, b, e[3] + w>> ELSE e : e \in G }
  ELSE G \cup {<<a, b, w>>}
MapGet(m, b) == IF \E e \in m : e[1] = b THEN (CHOOSE e \in m : e[1] = b)[2] ELSE 0
MapSet(m, b, w) == { e \in m : e[1] # b } \cup {<<b, w>>}

RECURSIVE QNetP2(_, _)
RECURSIVE QNetP2Items(_, _)
QNetP2(st, g) ==
  IF g.cur = <<>> THEN
    IF g.pi > Len(g.ptrs) THEN [st |-> st, g |-> [g EXCEPT !.done = TRUE]]
    ELSE LET p == g.ptrs[g.pi]
             w == Weighted(st.ls, p.head)                      \* the list is read now
         IN QNetP2Items(st, [g EXCEPT !.pi = @ + 1, !.curwe = p.we, !.cur = w])
  ELSE QNetP2Items(st, g)
QNetP2Items(st, g) ==
  IF g.cur = <<>> THEN QNetP2(st, g)
  ELSE LET it  == g.cur[1]
           twe == MapGet(g.map, it[1])
           g1  == [g EXCEPT !.cur = Tail(@)]
       IN IF twe = 0 \/ (~g.auto /\ twe = g.curwe) THEN QNetP2Items(st, g1)
          ELSE [st |-> st, g |-> [g1 EXCEPT !.graph = GAdd(@, g.curwe, twe, it[2])]]    \* counted: yield

RECURSIVE QNetP1(_, _)
QNetP1(st, g) ==
  IF g.stack = <<>> THEN QNetP2(st, [g EXCEPT !.phase = "p2"])
  ELSE LET top  == g.stack[Len(g.stack)]
           rest == SubSeq(g.stack, 1, Len(g.stack) - 1)
           node == st.trie[top.b]
           cw   == IF node.we # 0 THEN node.we ELSE top.we
           pend == [has |-> TRUE, node |-> node, inh |-> top.we, cw |-> cw]
           head == IF g.out THEN node.o ELSE node.i
       IN IF node.pg /\ cw # 0
          THEN [st |-> st,
                g |-> [g EXCEPT !.stack = rest, !.pend = pend, !.map = MapSet(@, top.b, cw),
                                !.ptrs = IF head # 0 THEN Append(@, [we |-> cw, head |-> head]) ELSE @]]
          ELSE QNetP1(st, [g EXCEPT !.stack = NPush(rest, pend)])

RunQNet(st, g) ==
  IF g.phase = "p1" THEN
    LET g0 == IF ~g.started
              THEN [g EXCEPT !.started = TRUE, !.stack = IF Len(st.trie) = 0 THEN <<>> ELSE <<[b |-> 1, we |-> 0]>>]
              ELSE g
        g1 == IF g0.pend.has THEN [g0 EXCEPT !.stack = NPush(@, g0.pend), !.pend = [has |-> FALSE]] ELSE g0
    IN QNetP1(st, g1)
  ELSE QNetP2Items(st, g)

(***************************************************************************)
(* get_webentity_outlinks_iter / get_webentity_inlinks_iter(weid, ps):      *)
(* the cited / citing webentities.  Traversal as for the page query; for a  *)
(* page with links, one yield point after EVERY distinct target of its list *)
(* (the list head is the one read when the page was met; a target's         *)
(* webentity is resolved bottom-up when its turn comes).                    *)
(***************************************************************************)
NewLinksQuery(ps, out) ==
  [kind |-> "qlinks", ps |-> ps, out |-> out, pi |-> 0, start |-> 0, stack |-> <<>>,
   pend |-> [has |-> FALSE], cur |-> <<>>, seen |-> {}, acc |-> {}, phase |-> "run",
   pages |-> 0, created |-> <<>>, done |-> FALSE, exc |-> ""]

RECURSIVE QLinksLoop(_, _)
QLinksLoop(st, g) ==
  IF g.cur # <<>> THEN      \* next target of the current page's list: resolve, yield
    LET tg == g.cur[1] IN
    [st |-> st,
     g |-> [g EXCEPT !.cur = Tail(@),
                     !.acc = IF tg \in g.seen THEN @ ELSE @ \cup {WindupWe(st.trie, tg)},
                     !.seen = @ \cup {tg}]]
  ELSE IF g.pend.has THEN   \* the list of the suspended page is exhausted: push from the stale copy
    QLinksLoop(st, [g EXCEPT !.stack = QPush(@, g.start, g.pend), !.pend = [has |-> FALSE]])
  ELSE IF g.stack = <<>> THEN
    IF g.pi >= Len(g.ps) THEN [st |-> st, g |-> [g EXCEPT !.done = TRUE]]
    ELSE LET p == g.ps[g.pi + 1]
             n == LruNode(st.trie, p)
         IN IF n = 0 THEN [st |-> st, g |-> [g EXCEPT !.done = TRUE, !.exc = "TraphException"]]
            ELSE QLinksLoop(st, [g EXCEPT !.pi = @ + 1, !.start = n,
                                          !.stack = <<[b |-> n, pre |-> SubSeq(p, 1, Len(p) - 1)]>>])
  ELSE LET top  == g.stack[Len(g.stack)]
           rest == SubSeq(g.stack, 1, Len(g.stack) - 1)
           node == st.trie[top.b]
           rel  == top.b = g.start \/ node.we = 0
           cur  == Append(top.pre, node.s)
           pend == [has |-> TRUE, node |-> node, b |-> top.b, pre |-> top.pre, cur |-> cur, rel |-> rel]
           head == IF g.out THEN node.o ELSE node.i
       IN IF rel /\ node.pg /\ head # 0
          THEN QLinksLoop(st, [g EXCEPT !.stack = rest, !.pend = pend, !.cur = Deduped(st.ls, head)])
          ELSE QLinksLoop(st, [g EXCEPT !.stack = QPush(rest, g.start, pend)])

RunQLinks(st, g) == QLinksLoop(st, g)

(***************************************************************************)
(* get_webentity_child_webentities_iter(weid, ps): dfs_iter with the       *)
(* pruning flag, a yield point after EVERY node; the pruning decision and  *)
(* the pointers pushed come from the copy read before the yield.           *)
(***************************************************************************)
NewChildrenQuery(weid, ps) ==
  [kind |-> "qchildren", weid |-> weid, ps |-> ps, pi |-> 0, start |-> 0, stack |-> <<>>,
   pend |-> [has |-> FALSE], acc |-> {}, phase |-> "run", pages |-> 0, created |-> <<>>,
   done |-> FALSE, exc |-> ""]

CPush(stack, start, pend) ==
  stack
  \o (IF pend.b # start
      THEN (IF pend.node.r # 0 THEN <<[b |-> pend.node.r, pre |-> pend.pre]>> ELSE <<>>)
           \o (IF pend.node.l # 0 THEN <<[b |-> pend.node.l, pre |-> pend.pre]>> ELSE <<>>)
      ELSE <<>>)
  \o (IF ~pend.node.nc /\ pend.node.ch # 0 THEN <<[b |-> pend.node.ch, pre |-> pend.cur]>> ELSE <<>>)

RECURSIVE QChildrenLoop(_, _)
QChildrenLoop(st, g) ==
  IF g.pend.has THEN QChildrenLoop(st, [g EXCEPT !.stack = CPush(@, g.start, g.pend), !.pend = [has |-> FALSE]])
  ELSE IF g.stack = <<>> THEN
    IF g.pi >= Len(g.ps) THEN [st |-> st, g |-> [g EXCEPT !.done = TRUE]]
    ELSE LET p == g.ps[g.pi + 1]
             n == LruNode(st.trie, p)
         IN IF n = 0 THEN [st |-> st, g |-> [g EXCEPT !.done = TRUE, !.exc = "TraphException"]]
            ELSE QChildrenLoop(st, [g EXCEPT !.pi = @ + 1, !.start = n,
                                             !.stack = <<[b |-> n, pre |-> SubSeq(p, 1, Len(p) - 1)]>>])
  ELSE LET top  == g.stack[Len(g.stack)]
           rest == SubSeq(g.stack, 1, Len(g.stack) - 1)
           node == st.trie[top.b]
           cur  == Append(top.pre, node.s)
       IN [st |-> st,
           g |-> [g EXCEPT !.stack = rest,
                           !.pend = [has |-> TRUE, node |-> node, b |-> top.b, pre |-> top.pre, cur |-> cur],
                           !.acc = IF node.we # 0 /\ node.we # g.weid THEN @ \cup {node.we} ELSE @]]

(***************************************************************************)
(* get_webentity_pagelinks_iter(weid, ps, inbound, internal, outbound):    *)
(* for every page met, its out list then its in list; each list is read    *)
(* (with multiplicities) when its first item is needed; a yield point after *)
(* EVERY item, kept or not.                                                 *)
(***************************************************************************)
NewPageLinksQuery(weid, ps, inb, internal, outb) ==
  [kind |-> "qpagelinks", weid |-> weid, ps |-> ps, inb |-> inb, int |-> internal, out |-> outb,
   pi |-> 0, start |-> 0, stack |-> <<>>, pend |-> [has |-> FALSE], cur |-> <<>>, side |-> "none",
   todo |-> <<>>, lru |-> <<>>, acc |-> <<>>, phase |-> "run", pages |-> 0, created |-> <<>>,
   done |-> FALSE, exc |-> ""]

RECURSIVE QPageLinksLoop(_, _)
QPageLinksLoop(st, g) ==
  IF g.cur # <<>> THEN        \* next item of the list being walked: resolve now, keep or not, yield
    LET it  == g.cur[1]
        tl  == Windup(st.trie, it[1])
        tw  == WindupWe(st.trie, it[1])
        keep == IF g.side = "out" THEN (g.out /\ tw # g.weid) \/ (g.int /\ tw = g.weid) ELSE tw # g.weid
        row == IF g.side = "out" THEN <<g.lru, tl, it[2]>> ELSE <<tl, g.lru, it[2]>>
    IN [st |-> st, g |-> [g EXCEPT !.cur = Tail(@), !.acc = IF keep THEN Append(@, row) ELSE @]]
  ELSE IF g.todo # <<>> THEN  \* the in list of the same page comes after its out list: read it now
    QPageLinksLoop(st, [g EXCEPT !.cur = Weighted(st.ls, g.todo[1]), !.side = "in", !.todo = <<>>])
  ELSE IF g.pend.has THEN
    QPageLinksLoop(st, [g EXCEPT !.stack = QPush(@, g.start, g.pend), !.pend = [has |-> FALSE]])
  ELSE IF g.stack = <<>> THEN
    IF g.pi >= Len(g.ps) THEN [st |-> st, g |-> [g EXCEPT !.done = TRUE]]
    ELSE LET p == g.ps[g.pi + 1]
             n == LruNode(st.trie, p)
         IN IF n = 0 THEN [st |-> st, g |-> [g EXCEPT !.done = TRUE, !.exc = "TraphException"]]
            ELSE QPageLinksLoop(st, [g EXCEPT !.pi = @ + 1, !.start = n,
                                              !.stack = <<[b |-> n, pre |-> SubSeq(p, 1, Len(p) - 1)]>>])
  ELSE LET top  == g.stack[Len(g.stack)]
           rest == SubSeq(g.stack, 1, Len(g.stack) - 1)
           node == st.trie[top.b]
           rel  == top.b = g.start \/ node.we = 0
           cur  == Append(top.pre, node.s)
           pend == [has |-> TRUE, node |-> node, b |-> top.b, pre |-> top.pre, cur |-> cur, rel |-> rel]
           doOut == node.o # 0 /\ (g.out \/ g.int)
           doIn  == node.i # 0 /\ g.inb
       IN IF rel /\ node.pg /\ (doOut \/ doIn)
          THEN QPageLinksLoop(st, [g EXCEPT !.stack = rest, !.pend = pend, !.lru = cur,
                                            !.cur = IF doOut THEN Weighted(st.ls, node.o) ELSE <<>>,
                                            !.side = IF doOut THEN "out" ELSE "none",
                                            !.todo = IF doIn THEN <<node.i>> ELSE <<>>])
          ELSE QPageLinksLoop(st, [g EXCEPT !.stack = QPush(rest, g.start, pend)])

(***************************************************************************)
(* get_webentities_links_slow_iter(out, include_auto) - the "slow" network *)
(* query.  ONE pass: dfs_with_webentity_iter; for a page that has links    *)
(* and a webentity the page is recorded in the block -> webentity cache,   *)
(* its list is read at once, and every item is resolved when its turn      *)
(* comes - from the cache if the block was seen, else bottom-up NOW (and   *)
(* cached if found).  A yield point after every edge counted.  The         *)
(* traversal pushes the suspended node's pointers from the copy read       *)
(* before the yield.                                                       *)
(***************************************************************************)
NewNetSlowQuery(out, auto) ==
  [kind |-> "qnetslow", out |-> out, auto |-> auto, phase |-> "run", started |-> FALSE, stack |-> <<>>,
   pend |-> [has |-> FALSE], map |-> {}, cur |-> <<>>, curwe |-> 0,
   graph |-> {}, pages |-> 0, created |-> <<>>, done |-> FALSE, exc |-> ""]

RECURSIVE QNetSlowLoop(_, _)
QNetSlowLoop(st, g) ==
  IF g.cur # <<>> THEN
    LET it   == g.cur[1]
        hit  == MapGet(g.map, it[1])
        twe  == IF hit # 0 THEN hit ELSE WindupWe(st.trie, it[1])
        g1   == [g EXCEPT !.cur = Tail(@), !.map = IF twe # 0 THEN MapSet(@, it[1], twe) ELSE @]
    IN IF twe = 0 \/ (~g.auto /\ twe = g.curwe) THEN QNetSlowLoop(st, g1)
       ELSE [st |-> st, g |-> [g1 EXCEPT !.graph = GAdd(@, g.curwe, twe, it[2])]]      \* counted: yield
  ELSE IF g.pend.has THEN QNetSlowLoop(st, [g EXCEPT !.stack = NPush(@, g.pend), !.pend = [has |-> FALSE]])
  ELSE IF g.stack = <<>> THEN [st |-> st, g |-> [g EXCEPT !.done = TRUE]]
  ELSE LET top  == g.stack[Len(g.stack)]
           rest == SubSeq(g.stack, 1, Len(g.stack) - 1)
           node == st.trie[top.b]
           cw   == IF node.we # 0 THEN node.we ELSE top.we
           pend == [has |-> TRUE, node |-> node, inh |-> top.we, cw |-> cw]
           head == IF g.out THEN node.o ELSE node.i
       IN IF node.pg /\ head # 0 /\ cw # 0
          THEN QNetSlowLoop(st, [g EXCEPT !.stack = rest, !.pend = pend, !.map = MapSet(@, top.b, cw),
                                         !.curwe = cw, !.cur = Weighted(st.ls, head)])
          ELSE QNetSlowLoop(st, [g EXCEPT !.stack = NPush(rest, pend)])

RunQNetSlow(st, g) ==
  QNetSlowLoop(st, IF g.started THEN g
                   ELSE [g EXCEPT !.started = TRUE,
                                  !.stack = IF Len(st.trie) = 0 THEN <<>> ELSE <<[b |-> 1, we |-> 0]>>])

(***************************************************************************)
(* get_webentity_most_linked_pages_iter(weid, ps, k, max_depth):           *)
(* webentity_dfs_iter with the depth limit, a yield point after EVERY node *)
(* the traversal reports (page or not).  A page's inbound list is read     *)
(* when the page is met; a min-heap of (indegree, arrival, lru) keeps the  *)
(* k largest.  The last step sorts them, largest first.                    *)
(***************************************************************************)
NewTopQuery(ps, k, depth) ==
  [kind |-> "qtop", ps |-> ps, k |-> k, depth |-> depth, pi |-> 0, start |-> 0, stack |-> <<>>,
   pend |-> [has |-> FALSE], heap |-> {}, c |-> 0, acc |-> <<>>, phase |-> "run",
   pages |-> 0, created |-> <<>>, done |-> FALSE, exc |-> ""]

TLess(a, b) == a[1] < b[1] \/ (a[1] = b[1] /\ a[2] < b[2])
TPush(stack, start, depth, pend) ==
  stack
  \o (IF pend.b # start
      THEN (IF pend.node.r # 0 THEN <<[b |-> pend.node.r, pre |-> pend.pre, lv |-> pend.lv]>> ELSE <<>>)
           \o (IF pend.node.l # 0 THEN <<[b |-> pend.node.l, pre |-> pend.pre, lv |-> pend.lv]>> ELSE <<>>)
      ELSE <<>>)
  \o (IF pend.rel /\ pend.node.ch # 0 /\ ~(depth # Unlimited /\ pend.lv >= depth)
      THEN <<[b |-> pend.node.ch, pre |-> pend.cur, lv |-> pend.lv + 1]>> ELSE <<>>)

RECURSIVE TopSorted(_)
TopSorted(H) ==
  IF H = {} THEN <<>>
  ELSE LET m == CHOOSE x \in H : \A y \in H : y = x \/ TLess(y, x)
       IN <<[l |-> m[3], n |-> m[1]]>> \o TopSorted(H \ {m})

RECURSIVE QTopLoop(_, _)
QTopLoop(st, g) ==
  IF g.pend.has THEN QTopLoop(st, [g EXCEPT !.stack = TPush(@, g.start, g.depth, g.pend), !.pend = [has |-> FALSE]])
  ELSE IF g.stack = <<>> THEN
    IF g.pi >= Len(g.ps) THEN [st |-> st, g |-> [g EXCEPT !.done = TRUE, !.acc = TopSorted(g.heap)]]
    ELSE LET p == g.ps[g.pi + 1]
             n == LruNode(st.trie, p)
         IN IF n = 0 THEN [st |-> st, g |-> [g EXCEPT !.done = TRUE, !.exc = "TraphException"]]
            ELSE QTopLoop(st, [g EXCEPT !.pi = @ + 1, !.start = n,
                                        !.stack = <<[b |-> n, pre |-> SubSeq(p, 1, Len(p) - 1), lv |-> 0]>>])
  ELSE LET top  == g.stack[Len(g.stack)]
           rest == SubSeq(g.stack, 1, Len(g.stack) - 1)
           node == st.trie[top.b]
           rel  == top.b = g.start \/ node.we = 0
           cur  == Append(top.pre, node.s)
           pend == [has |-> TRUE, node |-> node, b |-> top.b, pre |-> top.pre, cur |-> cur, rel |-> rel, lv |-> top.lv]
           deg  == IF node.i = 0 THEN 1 ELSE Len(Deduped(st.ls, node.i))     \* the header read as a stub (F9)
           h1   == g.heap \cup {<<deg, g.c + 1, cur>>}
           h2   == IF Cardinality(h1) > g.k
                   THEN h1 \ {CHOOSE x \in h1 : \A y \in h1 : y = x \/ TLess(x, y)} ELSE h1
       IN IF rel
          THEN [st |-> st,
                g |-> IF node.pg THEN [g EXCEPT !.stack = rest, !.pend = pend, !.heap = h2, !.c = @ + 1]
                      ELSE [g EXCEPT !.stack = rest, !.pend = pend]]
          ELSE QTopLoop(st, [g EXCEPT !.stack = TPush(rest, g.start, g.depth, pend)])

RunGen(st, ram, def, g) ==
  IF g.kind = "crawl" THEN RunCrawl(st, ram, def, g)
  ELSE IF g.kind = "qpages" THEN RunQPages(st, g)
  ELSE IF g.kind = "qnet" THEN RunQNet(st, g)
  ELSE IF g.kind = "qlinks" THEN RunQLinks(st, g)
  ELSE IF g.kind = "qchildren" THEN QChildrenLoop(st, g)
  ELSE IF g.kind = "qpagelinks" THEN QPageLinksLoop(st, g)
  ELSE IF g.kind = "qnetslow" THEN RunQNetSlow(st, g)
  ELSE IF g.kind = "qtop" THEN QTopLoop(st, g)
  ELSE RunRule(st, ram, def, g)

=============================================================================
