------------------------------- MODULE Token -------------------------------
(***************************************************************************)
(* Pagination tokens (property C09, "tokens round-trip through their text  *)
(* encoding for every (prefix index, path)").                              *)
(*                                                                         *)
(* The traversal carries the path from the prefix node as an integer whose *)
(* base-4 digits are the moves (1 left, 2 child, 3 right: base4_append);   *)
(* the token is "<prefix index>#<that integer in base 64>".  Here a path   *)
(* is the sequence of its moves and a text the sequence of its base-64     *)
(* digit VALUES (0..63), so that nothing depends on the width of an        *)
(* integer: three moves make one base-64 digit.                            *)
(***************************************************************************)
EXTENDS Naturals, Sequences

Moves == {1, 2, 3}

RECURSIVE StripZeros(_)
StripZeros(s) == IF s # <<>> /\ s[1] = 0 THEN StripZeros(Tail(s)) ELSE s

(* base-4 digits -> base-64 digit values, most significant first; 0 is the text "0" *)
RECURSIVE Groups(_)
Groups(d) ==        \* Len(d) is a multiple of 3
  IF d = <<>> THEN <<>> ELSE <<16 * d[1] + 4 * d[2] + d[3]>> \o Groups(SubSeq(d, 4, Len(d)))
Pad(d) == CASE Len(d) % 3 = 0 -> d
            [] Len(d) % 3 = 1 -> <<0, 0>> \o d
            [] Len(d) % 3 = 2 -> <<0>> \o d
Encode(path) == IF path = <<>> THEN <<0>> ELSE StripZeros(Groups(Pad(path)))

(* base-64 digit values -> moves *)
RECURSIVE Expand(_)
Expand(t) ==
  IF t = <<>> THEN <<>>
  ELSE <<t[1] \div 16, (t[1] \div 4) % 4, t[1] % 4>> \o Expand(Tail(t))
Decode(text) == StripZeros(Expand(text))

(* a text is the encoding of some path iff decoding yields moves only *)
WellFormed(text) == text # <<>> /\ \A j \in 1..Len(text) : text[j] \in 0..63
IsPathText(text) == WellFormed(text) /\ \A j \in 1..Len(Decode(text)) : Decode(text)[j] \in Moves

(* the integer the code carries, where it fits *)
RECURSIVE PathInt(_)
PathInt(p) == IF p = <<>> THEN 0 ELSE 4 * PathInt(SubSeq(p, 1, Len(p) - 1)) + p[Len(p)]
RECURSIVE TextInt(_)
TextInt(t) == IF t = <<>> THEN 0 ELSE 64 * TextInt(SubSeq(t, 1, Len(t) - 1)) + t[Len(t)]
=============================================================================
