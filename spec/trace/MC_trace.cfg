SPECIFICATION Spec
CONSTANT Bug = "none"
INVARIANT Report
CHECK_DEADLOCK FALSE
