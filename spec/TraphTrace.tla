----------------------------- MODULE TraphTrace -----------------------------
(***************************************************************************)
(* Trace validation: executions recorded from the real Traph (module       *)
(* Universe supplies the batch: stem table + traces) are checked step by   *)
(* step against TraphImpl (block machine) and TraphAbs (abstract machine). *)
(*                                                                         *)
(* One initial state per trace; each step consumes one logged request.     *)
(* The spec variables are re-bound to the LOGGED state after every step    *)
(* (decoded files, public enumerations), so one deviating request does not *)
(* cascade into alarms on later, correct ones, and every absolute property *)
(* follows by induction from the per-step clauses.  The validation is      *)
(* TOTAL: a trace never disables Next; deviations are collected as named   *)
(* clauses in `bad` and printed as one VERDICT line per trace.             *)
(*                                                                         *)
(* Clause families:                                                        *)
(*   bind.*  exact conformance of layout / write order / reports with the  *)
(*           block machine (evidence that the spec is bound; a mismatch    *)
(*           alone is MODEL-DRIFT, never a property violation)             *)
(*   Cnn.*   the clauses of property Cnn (see DESIGN.md section 5)         *)
(***************************************************************************)
EXTENDS TraphImpl, TraphAbs, Queries, TraphCoop, Torn, TLC

Traces == Batch.traces

VARIABLES tid, k, cur, ram, def, bad, dead, gens, issued, qb
vars == <<tid, k, cur, ram, def, bad, dead, gens, issued, qb>>
(* issued = the largest webentity id any creation report of this trace has shown since the
   index was created or last cleared (what C12 calls "every id it issued") *)

Tr == Traces[tid]
Steps == Tr.steps

(***************************************************************************)
(* Rebuilding the real store from the logged diffs                         *)
(***************************************************************************)
RECURSIVE ApplyDiff(_, _, _)
ApplyDiff(st, d, j) ==
  IF j > Len(d) THEN st
  ELSE LET e == d[j] IN
       ApplyDiff(IF e.f = "T"
                 THEN [st EXCEPT !.trie = IF e.i = Len(@) + 1 THEN Append(@, e.b) ELSE [@ EXCEPT ![e.i] = e.b]]
                 ELSE [st EXCEPT !.ls   = IF e.i = Len(@) + 1 THEN Append(@, e.b) ELSE [@ EXCEPT ![e.i] = e.b]],
                 d, j + 1)

PostStore(st, S) ==
  [ApplyDiff(IF S.reset THEN EmptyStore ELSE st, S.d, 1) EXCEPT !.lastId = S.lastId, !.wlog = <<>>]

EmptyObs == [pages |-> <<>>, npages |-> 0, ncrawled |-> 0, nlinks |-> 0, we |-> <<>>,
             outs |-> <<>>, ins |-> <<>>, lenT |-> 0, lenL |-> 0]

(***************************************************************************)
(* The request of a step, in both machines                                 *)
(***************************************************************************)
CreatedStore == [EmptyStore EXCEPT !.wlog = <<[f |-> "H", i |-> 0, app |-> FALSE, b |-> 0],
                                              [f |-> "LH", i |-> 0, app |-> FALSE, b |-> 0]>>]

ImplFresh(d, rules) ==
  LET r == InstallRules(CreatedStore, EmptyRam, d, rules, 1) IN Res(r.st, 0, <<>>, "")

ImplStep(st, rm, d, S) ==
  LET a == S.a IN
  CASE S.op = "Init"     -> ImplFresh(Tr.def, Tr.rules)
    [] S.op \in {"Clear", "Recreate"} -> ImplFresh(a.def, a.rules)
    [] S.op = "ClearKeep" -> ImplFresh(d, <<>>)         \* clear(): files emptied, RAM rules kept (now dormant)
    [] S.op \in {"Reopen", "Skip"} -> Res(st, 0, <<>>, "")
    [] S.op \in {"Paginate", "PagLinks"} -> Res(st, 0, <<>>, S.exc)   \* read-only (clauses: Queries)
    [] S.op = "AddPage"  -> AddPageReq(st, rm, d, a.l, a.cr)
    [] S.op = "AddPages" -> AddPagesReq(st, rm, d, a.ls, a.cr)
    [] S.op = "AddLinks" -> AddLinksReq(st, rm, d, a.pairs)
    [] S.op = "IndexBatchCrawl" -> IndexBatchCrawlReq(st, rm, d, a.data)
    [] S.op = "CreateWe" -> CreateWebentityReq(st, a.ps)
    [] S.op = "DeleteWe" -> DeleteWebentityReq(st, a.id, a.ps)
    [] S.op = "DeleteWeNC" -> DeleteWebentityUncheckedReq(st, a.ps)
    [] S.op = "AddPrefix" -> AddPrefixReq(st, a.p, a.id)
    [] S.op = "RemovePrefix" -> RemovePrefixReq(st, a.p, a.id)
    [] S.op = "MovePrefix" -> MovePrefixReq(st, a.p, a.to, a.frm)
    [] S.op = "AddRule"  -> AddRuleReq(st, rm, d, a.anchor, a.rule, a.wr).res
    [] S.op = "RemoveRule" -> RemoveRuleReq(st, rm, a.anchor).res

AbsFresh(d, rules) == NoReport(AbsInstallRules(EmptyAbs, EmptyRam, d, rules, 1), "")

AbsStep(A, st, rm, d, S) ==
  LET a == S.a IN
  CASE S.op = "Init"     -> AbsFresh(Tr.def, Tr.rules)
    [] S.op \in {"Clear", "Recreate"} -> AbsFresh(a.def, a.rules)
    [] S.op = "ClearKeep" -> AbsFresh(d, <<>>)
    [] S.op \in {"Reopen", "Skip"} -> NoReport(A, "")
    [] S.op \in {"Paginate", "PagLinks"} -> NoReport(A, S.exc)
    [] S.op = "AddPage"  -> AbsAddPage(A, rm, d, a.l, a.cr)
    [] S.op = "AddPages" -> AbsAddPages(A, rm, d, a.ls, a.cr)
    [] S.op = "AddLinks" -> AbsAddLinks(A, rm, d, a.pairs)
    [] S.op = "IndexBatchCrawl" -> AbsIndexBatchCrawl(A, rm, d, a.data)
    [] S.op = "CreateWe" -> AbsCreateWe(A, a.ps)
    [] S.op = "DeleteWe" -> AbsDeleteWe(A, a.id, a.ps)
    [] S.op = "DeleteWeNC" -> AbsDeleteWeUnchecked(A, a.ps)
    [] S.op = "AddPrefix" -> AbsAddPrefix(A, a.p, a.id)
    [] S.op = "RemovePrefix" -> AbsRemovePrefix(A, a.p, a.id)
    [] S.op = "MovePrefix" -> AbsMovePrefix(A, a.p, a.to, a.frm)
    [] S.op = "AddRule"  ->
         LET n == LruNode(st.trie, a.anchor) IN
         AbsAddRule(A, RamSet(rm, a.anchor, a.rule), d, a.anchor, a.wr,
                    IF n = 0 THEN <<>> ELSE PagesBeneath(st.trie, n, a.anchor))
    [] S.op = "RemoveRule" -> AbsRemoveRule(A, rm, a.anchor)

NewRam(rm, S) ==
  CASE S.op = "Init"   -> RamOfRules(Tr.rules)
    [] S.op \in {"Clear", "Recreate"} -> RamOfRules(S.a.rules)
    [] S.op = "Reopen" -> RamOfRules(S.a.rules)
    [] S.op = "AddRule" -> RamSet(rm, S.a.anchor, S.a.rule)
    [] S.op = "RemoveRule" -> IF S.a.anchor \in DOMAIN rm THEN RamDel(rm, S.a.anchor) ELSE rm
    [] OTHER -> rm
NewDef(d, S) ==
  CASE S.op = "Init" -> Tr.def
    [] S.op \in {"Clear", "Reopen", "Recreate"} -> S.a.def
    [] OTHER -> d

(***************************************************************************)
(* Clauses                                                                 *)
(***************************************************************************)
FailNames(q) == LET f == SelectSeq(q, LAMBDA c : ~c[2]) IN [j \in 1..Len(f) |-> f[j][1]]

RECURSIVE SumBlocks(_)
SumBlocks(K) ==       \* blocks needed by a set of known LRUs: one node per LRU, sized by its last stem
  IF K = {} THEN 0 ELSE LET l == CHOOSE x \in K : TRUE IN NBlocks(l[Len(l)]) + SumBlocks(K \ {l})

WriteOrder(w) == [j \in 1..Len(w) |-> [f |-> w[j].f, i |-> w[j].i, app |-> w[j].app]]

CreatedIds(c) == { c[j].id : j \in 1..Len(c) }

(* Installing a rule re-inserts the pages beneath its anchor "in some order": which new id   *)
(* goes to which new webentity depends on that order, so for AddRule steps created            *)
(* webentities are compared as groups of prefixes plus the set of ids, not id by id.          *)
Groups(c) == { SeqToSet(c[j].prefixes) : j \in 1..Len(c) }
IdSet(c)  == { c[j].id : j \in 1..Len(c) }
SameCreated(op, a, b) ==
  IF op = "AddRule"
  THEN Groups(a) = Groups(b) /\ IdSet(a) = IdSet(b) /\ Len(a) = Len(b)
  ELSE Len(a) = Len(b)
       /\ { <<c.id, SeqToSet(c.prefixes)>> : c \in SeqToSet(a) } = { <<c.id, SeqToSet(c.prefixes)>> : c \in SeqToSet(b) }
(* the prefix -> webentity map with the ids issued by this request replaced by their classes *)
WeNorm(W, old) ==
  { IF e[2] \in old THEN <<e[1], e[2], {}>> ELSE <<e[1], 0, { x[1] : x \in { y \in W : y[2] = e[2] } }>> : e \in W }
SameWe(op, W1, W2, old) == IF op = "AddRule" THEN WeNorm(W1, old) = WeNorm(W2, old) ELSE W1 = W2

(* clauses that read only the pre-state files, the request and the public   *)
(* observations: evaluated even when the post-state files are broken        *)
ObsClauses(st, rm, d, S, post, o0, o1, iss) ==
  LET A0   == AbsPre(o0, st)
      R    == AbsStep(A0, st, rm, d, S)
      P    == ImplStep(st, rm, d, S)
  IN FailNames(<<
      \* ---- exact conformance with the block machine (drift, not a verdict) ----
      <<"bind.exc",    P.exc = S.exc>>,
      <<"bind.report", S.exc # "" \/ (P.pages = S.pages /\ P.created = S.created)>>,   \* a request that raised returned no report
      <<"bind.trie",   P.st.trie = post.trie>>,
      <<"bind.links",  P.st.ls = post.ls>>,
      <<"bind.hdr",    P.st.lastId = post.lastId>>,
      <<"bind.wlog",   WriteOrder(P.st.wlog) = WriteOrder(S.w)>>,
      <<"bind.refine", R.exc = P.exc /\ (R.exc # "" \/ (R.created = P.created /\ R.pages = P.pages))
                       /\ R.A.pages = PagesOf(P.st.trie) /\ R.A.we = WeOfBlocks(P.st.trie)>>,
      \* ---- C01 page set fidelity ----
      <<"C01.pages",   R.A.pages = PSet(o1)>>,
      <<"C01.nodup",   Len(o1.pages) = Cardinality(PSet(o1))>>,
      <<"C01.crawled", R.A.crawled = CSet(o1)>>,
      <<"C01.counts",  o1.npages = Cardinality(PSet(o1)) /\ o1.ncrawled = Cardinality(CSet(o1))>>,
      <<"C01.report",  S.exc # "" \/ R.pages = S.pages>>,
      \* ---- C03 link multigraph ----
      <<"C03.out",     R.A.links = OutT(o1)>>,
      <<"C03.in",      { e \in R.A.links : e[1] # e[2] } = InT(o1)>>,
      <<"C03.nodup",   Len(o1.outs) = Cardinality(OutT(o1)) /\ Len(o1.ins) = Cardinality(InT(o1))
                       /\ Cardinality(BagPairs(OutT(o1))) = Cardinality(OutT(o1))
                       /\ Cardinality(BagPairs(InT(o1))) = Cardinality(InT(o1))>>,
      <<"C03.count",   o1.nlinks = SumW(R.A.links)>>,
      \* ---- C04 resolution: net effect of the edit on the prefix -> webentity map ----
      <<"C04.edit",    SameWe(S.op, R.A.we, WSet(o1), { e[2] : e \in WSet(o0) })>>,
      <<"C04.refuse",  (R.exc = "TraphException") = (S.exc = "TraphException")>>,
      <<"C04.function", Cardinality({ e[1] : e \in WSet(o1) }) = Cardinality(WSet(o1))>>,
      \* ---- C06 automatic creation ----
      <<"C06.created", S.exc # "" \/ SameCreated(S.op, R.created, S.created)>>,
      <<"C06.exc",     R.exc = S.exc>>,
      \* ---- C12 ids ----
      <<"C12.fresh",   \A j \in 1..Len(S.created) : S.created[j].id > (IF S.reset THEN 0 ELSE iss)>>,
      <<"C12.distinct", \A i \in 1..Len(S.created) : \A j \in 1..Len(S.created) :
                             i # j => S.created[i].id # S.created[j].id>>,
      <<"bind.hdr.persist", post.lastId = R.A.lastId>>,
      <<"C12.shared",  \A j \in 1..Len(S.created) :
                          \A p \in SeqToSet(S.created[j].prefixes) : <<p, S.created[j].id>> \in WSet(o1)>>,
      \* ---- C19 storage accounting (lengths only) ----
      <<"C19.trie",    Len(post.trie) = SumBlocks(R.A.known)>>,
      <<"C19.links",   Len(post.ls) = 2 * SumW(R.A.links)>>,
      <<"C19.len",     o1.lenT = 128 * (Len(post.trie) + 1) /\ o1.lenL = 16 * (Len(post.ls) + 1)>>,
      <<"C19.readd",   (~S.reset /\ R.A.known = A0.known) => Len(post.trie) = Len(st.trie)>>
     >>)

(* clauses that interpret the post-state files: need TstInv(post) *)
FileClauses(st, rm, d, S, post, o0, o1) ==
  LET A0   == AbsPre(o0, st)
      R    == AbsStep(A0, st, rm, d, S)
  IN FailNames(<<
      \* ---- the decoded files and the public enumerations tell the same story ----
      <<"bind.obs.pages", PagesOf(post.trie) = PSet(o1) /\ CrawledOf(post.trie) = CSet(o1)>>,
      <<"bind.obs.we",    WeOfBlocks(post.trie) = WSet(o1)>>,
      <<"bind.obs.links", OutLinksOf(post.trie, post.ls) = OutT(o1)>>,
      <<"C02.known",   R.A.known = KnownOf(post.trie)>>,
      <<"C03.files",   InLinksOf(post.trie, post.ls) = OutLinksOf(post.trie, post.ls)>>
     >>)

(***************************************************************************)
(* C16: generator requests advanced in turns.  CoopBegin registers the     *)
(* requests; each CoopNext is one next() on one of them, validated against *)
(* TraphCoop!RunGen from the logged store.                                 *)
(***************************************************************************)
IsCoop(S) == S.op \in {"CoopBegin", "CoopNext"}
QueryGen == [kind |-> "query", phase |-> "run", done |-> FALSE, exc |-> "", pages |-> 0, created |-> <<>>]
MkGen(x) ==
  CASE x.kind = "crawl" -> NewCrawl(x.data)
    [] x.kind = "rule"  -> NewRule(x.anchor, x.rule)
    [] x.kind = "qpages" -> NewPagesQuery(x.ps, x.oc)
    [] x.kind = "qnet" -> NewNetQuery(x.out, x.auto)
    [] x.kind = "qlinks" -> NewLinksQuery(x.ps, x.out)
    [] x.kind = "qchildren" -> NewChildrenQuery(x.id, x.ps)
    [] x.kind = "qpagelinks" -> NewPageLinksQuery(x.id, x.ps, TRUE, TRUE, TRUE)
    [] x.kind = "qnetslow" -> NewNetSlowQuery(x.out, x.auto)
    [] x.kind = "qtop" -> NewTopQuery(x.ps, x.k, x.depth)
    [] OTHER -> QueryGen

CoopRam(rm, gs, S) ==
  IF S.op = "CoopNext" /\ gs[S.a.g].kind = "rule" /\ gs[S.a.g].phase = "start"
  THEN RamSet(rm, gs[S.a.g].anchor, gs[S.a.g].rule) ELSE rm

CoopRun(st, rm, d, gs, S) ==      \* [st, g] after the step (queries: nothing changes)
  LET g == gs[S.a.g] IN
  IF g.kind = "query" THEN [st |-> [st EXCEPT !.wlog = <<>>], g |-> [g EXCEPT !.done = S.a.done]]
  ELSE RunGen(st, CoopRam(rm, gs, S), d, g)

NewGens(st, rm, d, gs, S) ==
  CASE S.op = "CoopBegin" -> [j \in 1..Len(S.a.gens) |-> MkGen(S.a.gens[j])]
    [] S.op = "CoopNext"  -> [gs EXCEPT ![S.a.g] = CoopRun(st, rm, d, gs, S).g]
    [] OTHER -> gs

RECURSIVE SeqCrawls(_, _, _)
SeqCrawls(A, descr, i) ==
  IF i > Len(descr) THEN A
  ELSE IF descr[i].kind = "crawl"
       THEN SeqCrawls(AbsIndexBatchCrawl(A, EmptyRam, [k |-> "never", n |-> 0], descr[i].data).A, descr, i + 1)
       ELSE SeqCrawls(A, descr, i + 1)

(* What a query generator would answer if it were asked on store s right now - computed by the  *)
(* specification from the logged blocks, not taken from the code under test.  qb accumulates,  *)
(* for every query generator still running, the intersection (lo) and union (hi) of these      *)
(* answers over the moments of its execution.                                                  *)
RECURSIVE DrainQ(_, _, _)
DrainQ(s, d, g) == IF g.done THEN g ELSE DrainQ(s, d, RunGen(s, EmptyRam, d, g).g)
IsQ(g) == g.kind \in {"qnet", "qnetslow", "qpages", "qtop", "qchildren", "qpagelinks", "qlinks"}
QAns(s, d, g) ==
  CASE g.kind \in {"qnet", "qnetslow"} -> { <<e[1], e[2]>> : e \in NetFast(s.trie, s.ls, g.out, g.auto) }
    [] g.kind = "qpages" ->
         IF \E i \in 1..Len(g.ps) : LruNode(s.trie, g.ps[i]) = 0 THEN {}
         ELSE { p \in SeqToSet(ConcatWeDfs(s.trie, g.ps, 1)) : ~g.oc \/ p \in CrawledOf(s.trie) }
    [] g.kind = "qtop" -> { e.l : e \in SeqToSet(TopBlocks(s.trie, s.ls, g.ps, 1000, g.depth)) }
    [] g.kind = "qchildren" -> ChildrenBlocks(s.trie, g.weid, g.ps)
    [] g.kind = "qpagelinks" -> { <<e[1], e[2]>> : e \in WeLinksBlocks(s.trie, s.ls, g.weid, g.ps, TRUE, TRUE, TRUE) }
    [] g.kind = "qlinks" -> DrainQ(s, d, NewLinksQuery(g.ps, g.out)).acc
    [] OTHER -> {}
(* Witnesses.  The answers of the aggregating queries (cited / citing webentities, network, child    *)
(* webentities) are sets of items each of which may be witnessed by several (page, link) pairs or     *)
(* prefix nodes.  Blocks never move, so a witness is identified by its block numbers; a STABLE witness  *)
(* is one that holds at every moment of the query's execution.  An item with a stable witness is       *)
(* always reported; an item that qualifies throughout only through witnesses that replace one another  *)
(* (possible only while pages are being re-attributed) may be missed: known finding F12.               *)
Aggregating(g) == g.kind \in {"qlinks", "qnet", "qnetslow", "qchildren"}
RealmPages(tr, ps) ==
  UNION { LET n == LruNode(tr, ps[i]) IN
          IF n = 0 THEN {} ELSE
          LET dd == WeDfsFrom(tr, n, ps[i], Unlimited) IN { dd[j][1] : j \in { x \in 1..Len(dd) : tr[dd[x][1]].pg } }
          : i \in 1..Len(ps) }
QWit(s, g) ==
  LET tr == s.trie  ls == s.ls IN
  CASE g.kind = "qlinks" ->
         UNION { { <<b, t, WindupWe(tr, t)>> : t \in SeqToSet(Deduped(ls, IF g.out THEN tr[b].o ELSE tr[b].i)) }
                 : b \in { x \in RealmPages(tr, g.ps) : (IF g.out THEN tr[x].o ELSE tr[x].i) # 0 } }
    [] g.kind \in {"qnet", "qnetslow"} ->
         LET dw == DfsWeRoot(tr)
             pageWe == { <<dw[j][1], dw[j][2]>> : j \in { x \in 1..Len(dw) : tr[dw[x][1]].pg /\ dw[x][2] # 0 } }
             W(b) == IF \E e \in pageWe : e[1] = b THEN (CHOOSE e \in pageWe : e[1] = b)[2] ELSE 0
             all == UNION { { <<e[1], t, e[2], W(t)>> : t \in SeqToSet(Deduped(ls, IF g.out THEN tr[e[1]].o ELSE tr[e[1]].i)) }
                            : e \in { x \in pageWe : (IF g.out THEN tr[x[1]].o ELSE tr[x[1]].i) # 0 } }
         IN { w \in all : w[4] # 0 /\ (g.auto \/ w[3] # w[4]) }
    [] g.kind = "qchildren" ->
         UNION { LET n == LruNode(tr, g.ps[i]) IN
                 IF n = 0 THEN {} ELSE
                 LET dd == DfsFrom(tr, n, g.ps[i], TRUE) IN
                 { <<dd[j][1], tr[dd[j][1]].we>> : j \in { x \in 1..Len(dd) : tr[dd[x][1]].we # 0 /\ tr[dd[x][1]].we # g.weid } }
                 : i \in 1..Len(g.ps) }
    [] OTHER -> {}
WitItem(g, w) == CASE g.kind = "qlinks" -> w[3]
                   [] g.kind \in {"qnet", "qnetslow"} -> <<w[3], w[4]>>
                   [] OTHER -> w[2]
NewQb(post, d, gs, gs2, S) ==
  CASE S.op = "CoopBegin" -> [j \in 1..Len(gs2) |-> LET a == QAns(post, d, gs2[j]) IN
                                                     [lo |-> a, hi |-> a, wit |-> QWit(post, gs2[j])]]
    [] S.op = "CoopNext"  -> [j \in 1..Len(gs) |->
                               IF IsQ(gs[j]) /\ ~gs[j].done
                               THEN LET a == QAns(post, d, gs[j]) IN
                                    [lo |-> qb[j].lo \cap a, hi |-> qb[j].hi \cup a, wit |-> qb[j].wit \cap QWit(post, gs[j])]
                               ELSE qb[j]]
    [] OTHER -> qb
(* what must be in the answer whatever else happens meanwhile *)
Stable(gs, q, j) == IF Aggregating(gs[j]) THEN { WitItem(gs[j], w) : w \in q[j].wit } ELSE q[j].lo

RECURSIVE InterAll(_, _)
InterAll(m, i) == IF i > Len(m) THEN {} ELSE IF i = Len(m) THEN SeqSet(m[i]) ELSE SeqSet(m[i]) \cap InterAll(m, i + 1)
UnionAll(m) == UNION { SeqSet(m[i]) : i \in 1..Len(m) }

(* signature of F11: the prefix -> webentity map changed while the query generators ran (a rule *)
(* installation, or a crawl creating webentities, re-attributed pages)                           *)
Reattributed(b, fin, o1) ==
  { <<fin.we0[j].l, fin.we0[j].id>> : j \in 1..Len(fin.we0) } # WSet(o1)

CoopClauses(st, rm, d, gs, S, post, o0, o1, qb2) ==
  IF S.op = "CoopBegin"
  THEN FailNames(<< <<"bind.trie", post.trie = st.trie /\ post.ls = st.ls>>, <<"bind.wlog", S.w = <<>>>> >>)
  ELSE
    LET r == CoopRun(st, rm, d, gs, S)
        isq == gs[S.a.g].kind = "query"
        fin == S.q.final
    IN FailNames(<<
      <<"bind.exc",    r.g.exc = S.exc>>,
      <<"bind.done",   isq \/ r.g.done = S.a.done>>,
      <<"bind.report", isq \/ ~S.a.done \/ (r.g.pages = S.pages /\ r.g.created = S.created)>>,
      <<"bind.qresult", (gs[S.a.g].kind = "qpages" /\ S.a.done /\ S.exc = "") => r.g.acc = S.a.result>>,
      <<"bind.qlinks",  (gs[S.a.g].kind = "qlinks" /\ S.a.done /\ S.exc = "") => r.g.acc = SeqSet(S.a.weids)>>,
      <<"bind.qchildren", (gs[S.a.g].kind = "qchildren" /\ S.a.done /\ S.exc = "") => r.g.acc = SeqSet(S.a.weids)>>,
      <<"bind.qpagelinks", (gs[S.a.g].kind = "qpagelinks" /\ S.a.done /\ S.exc = "") =>
                              r.g.acc = [j \in 1..Len(S.a.net) |-> <<S.a.net[j].s, S.a.net[j].t, S.a.net[j].w>>]>>,
      <<"bind.qnet",    (gs[S.a.g].kind = "qnet" /\ S.a.done /\ S.exc = "") => r.g.graph = Trip3(S.a.net)>>,
      <<"bind.qnetslow", (gs[S.a.g].kind = "qnetslow" /\ S.a.done /\ S.exc = "") => r.g.graph = Trip3(S.a.net)>>,
      <<"bind.qtop",    (gs[S.a.g].kind = "qtop" /\ S.a.done /\ S.exc = "") => r.g.acc = S.a.top>>,
      <<"bind.trie",   r.st.trie = post.trie>>,
      <<"bind.links",  r.st.ls = post.ls>>,
      <<"bind.hdr",    r.st.lastId = post.lastId>>,
      <<"bind.wlog",   WriteOrder(r.st.wlog) = WriteOrder(S.w)>>,
      <<"C16.nofail",  S.exc = "">>,
      <<"C16.monotone", PSet(o0) \subseteq PSet(o1) /\ CSet(o0) \subseteq CSet(o1)
                        /\ LinkLeq(OutT(o0), OutT(o1)) /\ LinkLeq(InT(o0), InT(o1))>>,
      <<"C16.sym",     fin.last => { e \in OutT(o1) : e[1] # e[2] } = InT(o1)>>,
      <<"C16.final",   fin.last =>
                         LET A0 == [EmptyAbs EXCEPT !.pages = LSet(fin.pages0), !.links = Trip3(fin.outs0),
                                                    !.crawled = { fin.pages0[j].l : j \in { i \in 1..Len(fin.pages0) : fin.pages0[i].cr } }]
                             W == SeqCrawls(A0, fin.gens, 1)
                         IN W.pages = PSet(o1) /\ W.crawled = CSet(o1) /\ W.links = OutT(o1)>>,
      \* the answer of every query lies between the intersection and the union of what the SPECIFICATION
      \* computes for it at each moment of its execution (qb2) ...
      <<"C16.bounds",  fin.last => \A j \in 1..Len(fin.bounds) :
                         LET b == fin.bounds[j] IN
                         /\ b.exc = ""
                         /\ (qb2[b.g].lo \subseteq SeqSet(b.result) \/ Reattributed(b, fin, o1))
                         /\ (SeqSet(b.result) \subseteq qb2[b.g].hi \/ Reattributed(b, fin, o1))>>,
      \* whatever else happens meanwhile: every item with a witness that held at every moment is reported
      <<"C16.bounds.stable", fin.last => \A j \in 1..Len(fin.bounds) :
                         LET b == fin.bounds[j] IN b.exc = "" => Stable(gs, qb2, b.g) \subseteq SeqSet(b.result)>>,
      \* ... and of what the plain requests of the code itself answered at those moments
      <<"C16.bounds.self",  fin.last => \A j \in 1..Len(fin.bounds) :
                         LET b == fin.bounds[j] IN
                         /\ (InterAll(b.moments, 1) \subseteq SeqSet(b.result) \/ Reattributed(b, fin, o1))
                         /\ (SeqSet(b.result) \subseteq UnionAll(b.moments) \/ Reattributed(b, fin, o1))>>,
      <<"bind.moments", fin.last => \A j \in 1..Len(fin.bounds) :
                         LET b == fin.bounds[j] IN
                         InterAll(b.moments, 1) = qb2[b.g].lo /\ UnionAll(b.moments) = qb2[b.g].hi>>,
      \* known finding F11: query generators decide which subtree belongs to the webentity, and which
      \* webentity the other end of a link belongs to, at different moments; while another request
      \* re-attributes pages to new webentities they can report an item that qualified at no moment
      <<"C16.bounds.reattribution", fin.last => \A j \in 1..Len(fin.bounds) :
                         LET b == fin.bounds[j] IN
                         ~(Reattributed(b, fin, o1) /\ ~(SeqSet(b.result) \subseteq qb2[b.g].hi
                                                        /\ SeqSet(b.result) \subseteq UnionAll(b.moments)))>>
      ,
      \* known finding F12: while pages are being re-attributed, an item that qualified at every moment
      \* only through witnesses replacing one another can be missed
      <<"C16.bounds.witness_moved", fin.last => \A j \in 1..Len(fin.bounds) :
                         LET b == fin.bounds[j] IN
                         ~(Reattributed(b, fin, o1) /\ b.exc = "" /\ ~(qb2[b.g].lo \subseteq SeqSet(b.result)))>>
    >>)

StepClauses(st, rm, d, gs, S, post, o0, iss, qb2) ==
  LET inv == TstInvFailure(post.trie, post.ls) IN
  IF IsCoop(S)
  THEN [names |-> (IF inv # "" THEN <<"C02.inv." \o inv, "C16.structure">> ELSE <<>>)
                  \o CoopClauses(st, rm, d, gs, S, post, o0, S.obs, qb2),
        dead |-> inv # ""]
  ELSE IF inv # ""
  THEN [names |-> <<"C02.inv." \o inv>> \o ObsClauses(st, rm, d, S, post, o0, S.obs, iss), dead |-> TRUE]
  ELSE [names |-> ObsClauses(st, rm, d, S, post, o0, S.obs, iss)
                  \o FileClauses(st, rm, d, S, post, o0, S.obs)
                  \o QueryClauses(post, NewRam(rm, S), NewDef(d, S), S),
        dead |-> FALSE]

(***************************************************************************)
(* Paired executions: the same history on another index (C15: the other    *)
(* back-end; C11: a twin that is never closed).  Every logged field of the *)
(* step must be identical (results, reports, write order, touched blocks,  *)
(* header id, store lengths, public enumerations).                         *)
(***************************************************************************)
PairClauses(S, j) ==
  IF Tr.pairid < 0 THEN <<>>
  ELSE LET other == Traces[CHOOSE x \in 1..Len(Traces) : Traces[x].id = Tr.pairid] IN
       IF j > Len(other.steps) THEN <<Tr.pairname \o ".length">>
       ELSE LET T == other.steps[j] IN
            FailNames(<<
              <<Tr.pairname \o ".result", S.exc = T.exc /\ S.pages = T.pages /\ S.created = T.created>>,
              <<Tr.pairname \o ".obs",    S.obs = T.obs>>,
              <<Tr.pairname \o ".store",  S.d = T.d /\ S.lastId = T.lastId /\ S.nT = T.nT /\ S.nL = T.nL
                                          /\ S.reset = T.reset>>,
              <<"bind.pair.writes", S.w = T.w>>,
              <<Tr.pairname \o ".answers", (Has(S.q, "ans") /\ Has(T.q, "ans")) => S.q.ans = T.q.ans>>,
              \* public generators started before the request and advanced after it (digest of what they yield)
              <<Tr.pairname \o ".generators", (Has(S.q, "gens") /\ Has(T.q, "gens")) => S.q.gens = T.q.gens>>
            >>)

(* C11: closing and reopening changes nothing; clear gives a fresh index *)
LifeClauses(S, prev, post, st, rm, d) ==
  \* "with the same rules re-supplied": a reopen that forgets a rule (or changes the default) is another request
  LET faithful == S.op = "Reopen" /\ RamOfRules(S.a.rules) = rm /\ S.a.def = d IN
  FailNames(<<
    <<"C11.blocks", S.obs.lenT % 128 = 0 /\ S.obs.lenL % 16 = 0>>,
    <<"C11.same",   S.op = "Reopen" => (S.obs = prev.obs /\ S.d = <<>>
                                       /\ post.trie = st.trie /\ post.ls = st.ls /\ post.lastId = st.lastId)>>,
    <<"bind.reopen.nowrite", S.op = "Reopen" => S.w = <<>>>>,
    <<"C11.answers", (faithful /\ Has(S.q, "ans") /\ Has(prev.q, "ans")) => S.q.ans = prev.q.ans>>,
    <<"C11.clear",  (S.op \in {"Clear", "Recreate"} /\ Has(S.q, "fresh")) =>
                       (S.q.fresh.rawsame /\ S.q.fresh.obssame /\ S.q.fresh.anssame /\ S.q.fresh.potsame)>>
  >>)

(***************************************************************************)
(* The trace machine                                                       *)
(***************************************************************************)
Init ==
  /\ tid \in 1..Len(Traces)
  /\ k = 0
  /\ cur = EmptyStore
  /\ ram = EmptyRam
  /\ def = [k |-> "domain", n |-> 0]
  /\ bad = <<>>
  /\ dead = FALSE
  /\ gens = <<>>
  /\ issued = 0
  /\ qb = <<>>

Tag(j, names) == [i \in 1..Len(names) |-> <<j, names[i]>>]

Next ==
  /\ k < Len(Steps)
  /\ ~dead
  /\ LET S    == Steps[k + 1]
         post == PostStore(cur, S)
         o0   == IF k = 0 \/ S.reset THEN EmptyObs ELSE Steps[k].obs
         gs2  == NewGens(cur, ram, def, gens, S)
         qb2  == NewQb(post, def, gens, gs2, S)
         f0   == StepClauses(cur, ram, def, gens, S, post, o0, issued, qb2)
         f    == [f0 EXCEPT !.names = @ \o PairClauses(S, k + 1)
                                        \o (IF k = 0 THEN <<>> ELSE LifeClauses(S, Steps[k], post, cur, ram, def))]
     IN /\ bad' = bad \o Tag(k + 1, f.names)
        /\ dead' = f.dead
        /\ cur' = post
        /\ issued' = LET base == IF S.reset THEN 0 ELSE issued
                          ids == { S.created[j].id : j \in 1..Len(S.created) }
                      IN IF ids = {} THEN base ELSE Max(base, CHOOSE x \in ids : \A y \in ids : y <= x)
        /\ gens' = gs2
        /\ qb' = qb2
        /\ ram' = IF IsCoop(S) THEN CoopRam(ram, gens, S) ELSE NewRam(ram, S)
        /\ def' = NewDef(def, S)
  /\ k' = k + 1
  /\ UNCHANGED tid

Spec == Init /\ [][Next]_vars

Done == k = Len(Steps) \/ dead
Report == Done => PrintT(<<"VERDICT", Tr.id, k, bad>>)

=============================================================================
