------------------------------ MODULE Universe ------------------------------
(* Universe of a trace batch: stem table and traces come from the JSON     *)
(* file named by the environment variable VERIF_BATCH.                     *)
EXTENDS Json, IOUtils
Batch   == JsonDeserialize(IOEnv.VERIF_BATCH)
StemTab == Batch.stems
WwwStem == Batch.www
=============================================================================
