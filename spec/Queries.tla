------------------------------ MODULE Queries ------------------------------
(* Read-only requests: block-level algorithms, abstract answers, and the   *)
(* clauses that compare the implementation's logged answers with them.     *)
EXTENDS TraphImpl, TraphAbs

QueryClauses(post, rm, d, S) == <<>>
=============================================================================
