------------------------------ MODULE Queries ------------------------------
(***************************************************************************)
(* Read-only requests.  For each family of queries: the block-level        *)
(* algorithm the code runs (transcribed), the abstract answer a user is    *)
(* entitled to, and the clauses comparing the implementation's LOGGED      *)
(* answers with them.  A clause group is evaluated only when the step's q  *)
(* record carries its data.                                                *)
(***************************************************************************)
EXTENDS TraphImpl, TraphAbs

FailNamesQ(q) == LET f == SelectSeq(q, LAMBDA c : ~c[2]) IN [j \in 1..Len(f) |-> f[j][1]]
Has(q, f) == f \in DOMAIN q
SeqSet(q) == { q[j] : j \in 1..Len(q) }

(***************************************************************************)
(* Observations as sets                                                    *)
(***************************************************************************)
PSet(o) == { o.pages[j].l : j \in 1..Len(o.pages) }
CSet(o) == { o.pages[j].l : j \in { i \in 1..Len(o.pages) : o.pages[i].cr } }
WSet(o) == { <<o.we[j].l, o.we[j].id>> : j \in 1..Len(o.we) }
OutT(o) == { <<o.outs[j].s, o.outs[j].t, o.outs[j].w>> : j \in 1..Len(o.outs) }
InT(o)  == { <<o.ins[j].s, o.ins[j].t, o.ins[j].w>> : j \in 1..Len(o.ins) }

(* the abstract state the implementation itself reports, completed with    *)
(* what only the files show (rule flags, findable set, header id)          *)
AbsPre(o, st) ==
  [pages |-> PSet(o), crawled |-> CSet(o), links |-> OutT(o), we |-> WSet(o),
   flags |-> RuleFlagsOf(st.trie), lastId |-> st.lastId, known |-> KnownOf(st.trie)]


(***************************************************************************)
(* C02: the three access paths                                             *)
(***************************************************************************)
LookupClauses(post, q) ==
  LET K == KnownOf(post.trie) IN
  FailNamesQ(<<
    <<"C02.lookup",  \A j \in 1..Len(q.lookup) : q.lookup[j].found = (q.lookup[j].l \in K)>>,
    <<"C02.lookup.model", \A j \in 1..Len(q.lookup) : (LruNode(post.trie, q.lookup[j].l) # 0) = q.lookup[j].found>>,
    <<"C02.windup",  \A j \in 1..Len(q.lookup) : q.lookup[j].found => q.lookup[j].wind = q.lookup[j].l>>,
    <<"C02.nofail",  q.dfsexc = "" /\ \A j \in 1..Len(q.lookup) : q.lookup[j].exc = "">>,
    <<"C02.dfs",     SeqSet(q.dfs) = K /\ Len(q.dfs) = Cardinality(K)>>,
    <<"C02.dfs.order", q.dfs = [j \in 1..Len(DfsRoot(post.trie)) |-> DfsRoot(post.trie)[j][2]]>>
  >>)

(***************************************************************************)
(* C03: enumerations and degrees                                           *)
(***************************************************************************)
LinkClauses(post, o, q) ==
  LET T == OutT(o)
      outPairs == { <<q.lo[j].s, q.lo[j].t>> : j \in 1..Len(q.lo) }
      inPairs  == { <<q.li[j].o, q.li[j].p>> : j \in 1..Len(q.li) }
      OutDeg(l)  == Cardinality({ e \in T : e[1] = l /\ e[2] # l })
      InDeg(l)   == Cardinality({ e \in T : e[2] = l /\ e[1] # l })
      SelfDeg(l) == Cardinality({ e \in T : e[1] = l /\ e[2] = l })
      OutW(l)  == SumW({ e \in T : e[1] = l /\ e[2] # l })
      InW(l)   == SumW({ e \in T : e[2] = l /\ e[1] # l })
      SelfW(l) == SumW({ e \in T : e[1] = l /\ e[2] = l })
  IN FailNamesQ(<<
    <<"C03.iter",      q.liexc = "" /\ outPairs = BagPairs(T) /\ inPairs = BagPairs(T)>>,
    <<"C03.iter.once", Len(q.lo) = Cardinality(outPairs) /\ Len(q.li) = Cardinality(inPairs)>>,
    <<"C03.degree",    \A j \in 1..Len(q.deg) :
                          LET r == q.deg[j] IN
                          /\ r.o = OutDeg(r.l) /\ r.i = InDeg(r.l)
                          /\ r.d = OutDeg(r.l) + InDeg(r.l) + SelfDeg(r.l)
                          /\ r.ow = OutW(r.l) /\ r.iw = InW(r.l)
                          /\ r.dw = OutW(r.l) + InW(r.l) + SelfW(r.l)>>,
    <<"C03.degree.all", { q.deg[j].l : j \in 1..Len(q.deg) } = PSet(o)>>
  >>)

(***************************************************************************)
(* C04: resolution of arbitrary LRUs                                       *)
(***************************************************************************)
ResolveClauses(post, o, q) ==
  LET A == AbsPre(o, post) IN
  FailNamesQ(<<
    <<"C04.resolve", \A j \in 1..Len(q.res) :
                        LET r == q.res[j]  w == Resolve(A, r.l) IN
                        /\ r.we = w
                        /\ r.e1 = (IF w = 0 THEN "TraphException" ELSE "")>>,
    <<"C04.prefix",  \A j \in 1..Len(q.res) :
                        LET r == q.res[j]  w == Resolve(A, r.l) IN
                        /\ r.p = ResolvePrefix(A, r.l)
                        /\ r.e2 = (IF w = 0 THEN "TraphException" ELSE "")>>,
    <<"C04.byprefix", \A j \in 1..Len(q.res) :
                        LET r == q.res[j] IN
                        IF r.l \in Owned(A) THEN r.by = WeAt(A, r.l) /\ r.e3 = ""
                        ELSE r.by = 0 /\ r.e3 = "TraphException">>,
    <<"C04.model",   \A j \in 1..Len(q.res) :
                        FollowLru(post.trie, q.res[j].l).hist.we = Resolve(A, q.res[j].l)>>
  >>)

(***************************************************************************)
(* C06: potential prefix = max(E, K), index untouched                      *)
(***************************************************************************)
PotentialClauses(post, rm, d, o, q) ==
  LET A == AbsPre(o, post) IN
  FailNamesQ(<<
    <<"C06.potential", \A j \in 1..Len(q.pot) :
                          LET r == q.pot[j] IN
                          RamComplete(A, rm, r.l) =>
                            (r.exc = "" /\ r.p = PotentialPrefix(A, rm, d, r.l))>>,
    <<"C06.potential.pure", q.wrote = 0>>
  >>)

(***************************************************************************)
(* C19: the metrics figures                                                *)
(***************************************************************************)
MetricsClauses(post, o, q) ==
  LET m == q.metrics
      tails == Cardinality({ b \in 1..Len(post.trie) : post.trie[b].t })
      frag  == Cardinality({ b \in 1..Len(post.trie) : post.trie[b].mo })
  IN IF Len(post.trie) = 0 THEN <<>>     \* metrics() of an empty index divides by zero (outside C19)
     ELSE FailNamesQ(<<
       <<"C19.metrics", /\ m.exc = ""
                        /\ m.nodes = Len(post.trie)
                        /\ m.pages = Cardinality(PSet(o)) /\ m.crawled = Cardinality(CSet(o))
                        /\ m.tails = tails /\ m.stems = Len(post.trie) - tails
                        /\ m.frag = frag
                        /\ m.links = SumW(OutT(o))>>
     >>)

QueryClauses(post, rm, d, S) ==
  LET q == S.q  o == S.obs IN
     (IF Has(q, "lookup")  THEN LookupClauses(post, q) ELSE <<>>)
  \o (IF Has(q, "lo")      THEN LinkClauses(post, o, q) ELSE <<>>)
  \o (IF Has(q, "res")     THEN ResolveClauses(post, o, q) ELSE <<>>)
  \o (IF Has(q, "pot")     THEN PotentialClauses(post, rm, d, o, q) ELSE <<>>)
  \o (IF Has(q, "metrics") THEN MetricsClauses(post, o, q) ELSE <<>>)
=============================================================================
