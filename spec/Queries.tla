------------------------------ MODULE Queries ------------------------------
(***************************************************************************)
(* Read-only requests.  For each family of queries: the block-level        *)
(* algorithm the code runs (transcribed), the abstract answer a user is    *)
(* entitled to, and the clauses comparing the implementation's LOGGED      *)
(* answers with them.  A clause group is evaluated only when the step's q  *)
(* record carries its data.                                                *)
(***************************************************************************)
EXTENDS TraphImpl, TraphAbs

FailNamesQ(q) == LET f == SelectSeq(q, LAMBDA c : ~c[2]) IN [j \in 1..Len(f) |-> f[j][1]]
Has(q, f) == f \in DOMAIN q
SeqSet(q) == { q[j] : j \in 1..Len(q) }
Trip3(x) == { <<x[j].s, x[j].t, x[j].w>> : j \in 1..Len(x) }

(***************************************************************************)
(* Observations as sets                                                    *)
(***************************************************************************)
PSet(o) == { o.pages[j].l : j \in 1..Len(o.pages) }
CSet(o) == { o.pages[j].l : j \in { i \in 1..Len(o.pages) : o.pages[i].cr } }
WSet(o) == { <<o.we[j].l, o.we[j].id>> : j \in 1..Len(o.we) }
OutT(o) == { <<o.outs[j].s, o.outs[j].t, o.outs[j].w>> : j \in 1..Len(o.outs) }
InT(o)  == { <<o.ins[j].s, o.ins[j].t, o.ins[j].w>> : j \in 1..Len(o.ins) }

(* the abstract state the implementation itself reports, completed with    *)
(* what only the files show (rule flags, findable set, header id)          *)
AbsPre(o, st) ==
  [pages |-> PSet(o), crawled |-> CSet(o), links |-> OutT(o), we |-> WSet(o),
   flags |-> RuleFlagsOf(st.trie), lastId |-> st.lastId, known |-> KnownOf(st.trie)]


(***************************************************************************)
(* Remaining read-only requests, block level: get_page_links, links_iter,  *)
(* the counting scans, links_metrics, and the integer figures of           *)
(* lru_trie.metrics / bst_metrics (averages and ratios are floats and are  *)
(* left out).                                                              *)
(***************************************************************************)
PageLinksBlocks(tr, ls, l, inb, internal, outb) ==     \* sequence, in the order the code lists them
  LET n == LruNode(tr, l) IN
  IF n = 0 \/ ~tr[n].pg THEN <<>>
  ELSE LET wo == IF tr[n].o # 0 /\ (outb \/ internal) THEN Weighted(ls, tr[n].o) ELSE <<>>
           ko == SelectSeq(wo, LAMBDA e : LET tl == Windup(tr, e[1]) IN
                                          (outb /\ tl # l) \/ (internal /\ tl = l))
           wi == IF tr[n].i # 0 /\ inb THEN Weighted(ls, tr[n].i) ELSE <<>>
           ki == SelectSeq(wi, LAMBDA e : Windup(tr, e[1]) # l)
       IN [j \in 1..Len(ko) |-> <<l, Windup(tr, ko[j][1]), ko[j][2]>>]
          \o [j \in 1..Len(ki) |-> <<Windup(tr, ki[j][1]), l, ki[j][2]>>]

RECURSIVE LinksIterFrom(_, _, _, _, _)
LinksIterFrom(tr, ls, pg, j, out) ==      \* links_iter: pages in dfs order, deduped targets of each
  IF j > Len(pg) THEN <<>>
  ELSE LET b == pg[j][1]
           head == IF out THEN tr[b].o ELSE tr[b].i
           d == IF head = 0 THEN <<>> ELSE Deduped(ls, head)
       IN [x \in 1..Len(d) |-> <<pg[j][2], Windup(tr, d[x])>>] \o LinksIterFrom(tr, ls, pg, j + 1, out)
LinksIterBlocks(tr, ls, out) ==
  LinksIterFrom(tr, ls, SelectSeq(DfsRoot(tr), LAMBDA e : tr[e[1]].pg), 1, out)

CountPagesScan(tr)   == Cardinality({ b \in 1..Len(tr) : tr[b].pg })
CountCrawledScan(tr) == Cardinality({ b \in 1..Len(tr) : tr[b].pg /\ tr[b].cr })
CountLinksBlocks(ls) == Len(ls) \div 2        \* (blocks - 1) / 2; integral when no request is in progress

(* links_metrics: first block (in file order) with the strictly largest number of distinct targets *)
LinksMetricsBlocks(tr, ls) ==
  LET Cnt(b, out) == LET h == IF out THEN tr[b].o ELSE tr[b].i IN IF h = 0 THEN 0 ELSE Len(Deduped(ls, h))
      MaxOf(out) == LET S == { Cnt(b, out) : b \in 1..Len(tr) } IN IF S = {} THEN 0 ELSE CHOOSE x \in S : \A y \in S : y <= x
      ArgOf(out) == LET m == MaxOf(out) IN
                    IF m = 0 THEN <<>> ELSE Windup(tr, CHOOSE b \in 1..Len(tr) : Cnt(b, out) = m /\ \A c \in 1..(b - 1) : Cnt(c, out) < m)
  IN [maxin |-> MaxOf(FALSE), inlru |-> ArgOf(FALSE), maxout |-> MaxOf(TRUE), outlru |-> ArgOf(TRUE)]

(* lru_trie.metrics, integer figures *)
RECURSIVE TailRun(_, _)
TailRun(tr, b) == IF b <= Len(tr) /\ tr[b].t THEN 1 + TailRun(tr, b + 1) ELSE 0
TrieMetricsBlocks(tr) ==
  [nodes |-> Len(tr), pages |-> CountPagesScan(tr), crawled |-> CountCrawledScan(tr),
   tails |-> Cardinality({ b \in 1..Len(tr) : tr[b].t }),
   frag  |-> Cardinality({ b \in 1..Len(tr) : tr[b].mo }),
   stems |-> Cardinality({ b \in 1..Len(tr) : ~tr[b].t }),
   maxtail |-> LET S == { TailRun(tr, b + 1) : b \in { h \in 1..Len(tr) : ~tr[h].t } } IN
               IF S = {} THEN 0 ELSE CHOOSE x \in S : \A y \in S : y <= x]

(* bst_metrics, integer figures.  As in the code, a block counts as the root of a search tree *)
(* when it has no parent pointer (every top-level node, and every tail block) or is the child *)
(* its parent points to.                                                                       *)
RECURSIVE BstSize(_, _)
BstSize(tr, b) == IF b = 0 THEN 0 ELSE 1 + BstSize(tr, tr[b].l) + BstSize(tr, tr[b].r)
RECURSIVE BstHeight(_, _)
BstHeight(tr, b) == IF b = 0 THEN 0 ELSE 1 + Max(BstHeight(tr, tr[b].l), BstHeight(tr, tr[b].r))
BstMetricsBlocks(tr) ==
  LET roots == { b \in 1..Len(tr) : tr[b].pa = 0 \/ tr[tr[b].pa].ch = b }
      SetMaxQ(S) == IF S = {} THEN 0 ELSE CHOOSE x \in S : \A y \in S : y <= x
  IN [nb |-> Cardinality(roots), maxh |-> SetMaxQ({ BstHeight(tr, b) : b \in roots }),
      maxs |-> SetMaxQ({ BstSize(tr, b) : b \in roots })]

(***************************************************************************)
(* C02: the three access paths                                             *)
(***************************************************************************)
LookupClauses(post, q) ==
  LET K == KnownOf(post.trie) IN
  FailNamesQ(<<
    <<"C02.lookup",  \A j \in 1..Len(q.lookup) : q.lookup[j].found = (q.lookup[j].l \in K)>>,
    <<"bind.lookup.model", \A j \in 1..Len(q.lookup) : (LruNode(post.trie, q.lookup[j].l) # 0) = q.lookup[j].found>>,
    <<"C02.windup",  \A j \in 1..Len(q.lookup) : q.lookup[j].found => q.lookup[j].wind = q.lookup[j].l>>,
    <<"C02.nofail",  q.dfsexc = "" /\ \A j \in 1..Len(q.lookup) : q.lookup[j].exc = "">>,
    <<"C02.dfs",     SeqSet(q.dfs) = K /\ Len(q.dfs) = Cardinality(K)>>,
    <<"bind.dfs.order", q.dfs = [j \in 1..Len(DfsRoot(post.trie)) |-> DfsRoot(post.trie)[j][2]]>>
  >>)

(***************************************************************************)
(* C03: enumerations and degrees                                           *)
(***************************************************************************)
LinkClauses(post, o, q) ==
  LET T == OutT(o)
      outPairs == { <<q.lo[j].s, q.lo[j].t>> : j \in 1..Len(q.lo) }
      inPairs  == { <<q.li[j].o, q.li[j].p>> : j \in 1..Len(q.li) }
      OutDeg(l)  == Cardinality({ e \in T : e[1] = l /\ e[2] # l })
      InDeg(l)   == Cardinality({ e \in T : e[2] = l /\ e[1] # l })
      SelfDeg(l) == Cardinality({ e \in T : e[1] = l /\ e[2] = l })
      OutW(l)  == SumW({ e \in T : e[1] = l /\ e[2] # l })
      InW(l)   == SumW({ e \in T : e[2] = l /\ e[1] # l })
      SelfW(l) == SumW({ e \in T : e[1] = l /\ e[2] = l })
  IN FailNamesQ(<<
    <<"C03.iter",      q.liexc = "" /\ outPairs = BagPairs(T) /\ inPairs = BagPairs(T)>>,
    <<"C03.iter.once", Len(q.lo) = Cardinality(outPairs) /\ Len(q.li) = Cardinality(inPairs)>>,
    <<"C03.degree",    \A j \in 1..Len(q.deg) :
                          LET r == q.deg[j] IN
                          /\ r.o = OutDeg(r.l) /\ r.i = InDeg(r.l)
                          /\ r.d = OutDeg(r.l) + InDeg(r.l) + SelfDeg(r.l)
                          /\ r.ow = OutW(r.l) /\ r.iw = InW(r.l)
                          /\ r.dw = OutW(r.l) + InW(r.l) + SelfW(r.l)>>,
    <<"C03.degree.all", { q.deg[j].l : j \in 1..Len(q.deg) } = PSet(o)>>,
    <<"bind.links_iter", q.liexc = "" =>
         /\ [j \in 1..Len(q.lo) |-> <<q.lo[j].s, q.lo[j].t>>] = LinksIterBlocks(post.trie, post.ls, TRUE)
         /\ [j \in 1..Len(q.li) |-> <<q.li[j].p, q.li[j].o>>] = LinksIterBlocks(post.trie, post.ls, FALSE)>>
  >>)

(***************************************************************************)
(* C04: resolution of arbitrary LRUs                                       *)
(***************************************************************************)
ResolveClauses(post, o, q) ==
  LET A == AbsPre(o, post) IN
  FailNamesQ(<<
    <<"C04.resolve", \A j \in 1..Len(q.res) :
                        LET r == q.res[j]  w == Resolve(A, r.l) IN
                        /\ r.we = w
                        /\ r.e1 = (IF w = 0 THEN "TraphException" ELSE "")>>,
    <<"C04.prefix",  \A j \in 1..Len(q.res) :
                        LET r == q.res[j]  w == Resolve(A, r.l) IN
                        /\ r.p = ResolvePrefix(A, r.l)
                        /\ r.e2 = (IF w = 0 THEN "TraphException" ELSE "")>>,
    <<"C04.byprefix", \A j \in 1..Len(q.res) :
                        LET r == q.res[j] IN
                        IF r.l \in Owned(A) THEN r.by = WeAt(A, r.l) /\ r.e3 = ""
                        ELSE r.by = 0 /\ r.e3 = "TraphException">>,
    <<"C04.model",   \A j \in 1..Len(q.res) :
                        FollowLru(post.trie, q.res[j].l).hist.we = Resolve(A, q.res[j].l)>>
  >>)

(***************************************************************************)
(* C06: potential prefix = max(E, K), index untouched                      *)
(***************************************************************************)
PotentialClauses(post, rm, d, o, q) ==
  LET A == AbsPre(o, post) IN
  FailNamesQ(<<
    <<"C06.potential", \A j \in 1..Len(q.pot) :
                          LET r == q.pot[j] IN
                          RamComplete(A, rm, r.l) =>
                            (r.exc = "" /\ r.p = PotentialPrefix(A, rm, d, r.l))>>,
    <<"bind.potential.nowrite", q.wrote = 0>>,
    <<"bind.match", \A j \in 1..Len(q.match) : Match(q.match[j].rule, q.match[j].l) = q.match[j].n>>
  >>)

(***************************************************************************)
(* C19: the metrics figures                                                *)
(***************************************************************************)
MetricsClauses(post, o, q) ==
  LET m == q.metrics
      tails == Cardinality({ b \in 1..Len(post.trie) : post.trie[b].t })
      frag  == Cardinality({ b \in 1..Len(post.trie) : post.trie[b].mo })
  IN IF Len(post.trie) = 0 THEN <<>>     \* metrics() of an empty index divides by zero (outside C19)
     ELSE FailNamesQ(<<
       <<"C19.metrics", /\ m.exc = ""
                        /\ m.pages = Cardinality(PSet(o)) /\ m.crawled = Cardinality(CSet(o))
                        /\ m.tails = tails
                        /\ m.links = SumW(OutT(o))>>,
       <<"bind.metrics", m.nodes = Len(post.trie) /\ m.stems = Len(post.trie) - tails /\ m.frag = frag>>,
       <<"bind.metrics.trie", Has(m, "maxtail") => m.maxtail = TrieMetricsBlocks(post.trie).maxtail>>,
       <<"bind.metrics.bst",  Has(m, "bst") =>
                                 LET x == BstMetricsBlocks(post.trie) IN
                                 m.bst.nb = x.nb /\ m.bst.maxh = x.maxh /\ m.bst.maxs = x.maxs>>,
       <<"bind.metrics.links", Has(m, "lm") =>
                                 LET x == LinksMetricsBlocks(post.trie, post.ls) IN
                                 /\ m.lm.maxin = x.maxin /\ m.lm.maxout = x.maxout
                                 /\ m.lm.inlru = x.inlru /\ m.lm.outlru = x.outlru>>
     >>)

(***************************************************************************)
(* Relational clauses over the implementation's own answers                *)
(*   q.pres : reported resolution of every reported page                   *)
(*   q.wp   : reported pages of every webentity (full prefix list, any     *)
(*            order)                                                       *)
(***************************************************************************)
RPres(q, l) ==
  LET S == { j \in 1..Len(q.pres) : q.pres[j].l = l } IN
  IF S = {} THEN 0 ELSE q.pres[CHOOSE j \in S : TRUE].we
WpRow(q, w) == q.wp[CHOOSE j \in 1..Len(q.wp) : q.wp[j].id = w]
LSet(rows) == { rows[j].l : j \in 1..Len(rows) }
Members(q, w) == LSet(WpRow(q, w).pages)

(* C05 *)
RECURSIVE ConcatWeDfs(_, _, _)
ConcatWeDfs(tr, ps, i) ==      \* block-level answer: pages met by webentity_dfs_iter, prefix by prefix
  IF i > Len(ps) THEN <<>>
  ELSE LET n == LruNode(tr, ps[i])
           d == IF n = 0 THEN <<>> ELSE WeDfsFrom(tr, n, ps[i], Unlimited)
           pg == SelectSeq(d, LAMBDA e : tr[e[1]].pg)
       IN [j \in 1..Len(pg) |-> pg[j][2]] \o ConcatWeDfs(tr, ps, i + 1)

WePagesClauses(post, o, q) ==
  FailNamesQ(<<
    <<"C05.nofail", \A j \in 1..Len(q.wp) : q.wp[j].exc = "">>,
    <<"C05.iff",    \A j \in 1..Len(q.wp) :
                       LSet(q.wp[j].pages) = { p \in PSet(o) : RPres(q, p) = q.wp[j].id }>>,
    <<"C05.nodup",  \A j \in 1..Len(q.wp) : Len(q.wp[j].pages) = Cardinality(LSet(q.wp[j].pages))>>,
    <<"C05.marks",  \A j \in 1..Len(q.wp) : \A i \in 1..Len(q.wp[j].pages) :
                       q.wp[j].pages[i].cr = (q.wp[j].pages[i].l \in CSet(o))>>,
    <<"C05.crawledonly", \A j \in 1..Len(q.wp) :
                       /\ LSet(q.wp[j].cpages) = LSet(q.wp[j].pages) \cap CSet(o)
                       /\ Len(q.wp[j].cpages) = Cardinality(LSet(q.wp[j].cpages))
                       /\ \A i \in 1..Len(q.wp[j].cpages) : q.wp[j].cpages[i].cr>>,
    <<"C05.partition", \A p \in PSet(o) : RPres(q, p) # 0 =>
                       Cardinality({ j \in 1..Len(q.wp) : p \in LSet(q.wp[j].pages) }) = 1>>,
    <<"C05.resolution", \A p \in PSet(o) : RPres(q, p) = Resolve(AbsPre(o, post), p)>>,
    <<"bind.wepages", \A j \in 1..Len(q.wp) :
                       [i \in 1..Len(q.wp[j].pages) |-> q.wp[j].pages[i].l] = ConcatWeDfs(post.trie, q.wp[j].ps, 1)>>
  >>)

(* C07 *)
AggOut(T, q, auto) ==
  LET prs == { <<RPres(q, e[1]), RPres(q, e[2])>> : e \in T }
      ok  == { pr \in prs : pr[1] # 0 /\ pr[2] # 0 /\ (auto \/ pr[1] # pr[2]) }
  IN { <<pr[1], pr[2], SumW({ e \in T : RPres(q, e[1]) = pr[1] /\ RPres(q, e[2]) = pr[2] })>> : pr \in ok }
Transpose(G) == { <<e[2], e[1], e[3]>> : e \in G }
NetSet(n) == { <<n.links[j].s, n.links[j].t, n.links[j].w>> : j \in 1..Len(n.links) }

NetworkClauses(o, q) ==
  LET T == OutT(o)
      Want(n) == IF n.out THEN AggOut(T, q, n.auto) ELSE Transpose(AggOut(T, q, n.auto))
      Net(slow, out, auto) == q.nets[CHOOSE j \in 1..Len(q.nets) :
                                 q.nets[j].slow = slow /\ q.nets[j].out = out /\ q.nets[j].auto = auto]
      Wes == { RPres(q, p) : p \in PSet(o) } \ {0}
  IN FailNamesQ(<<
    <<"C07.nofail", \A j \in 1..Len(q.nets) : q.nets[j].exc = "">>,
    <<"C07.agg",    \A j \in 1..Len(q.nets) : ~q.nets[j].slow => NetSet(q.nets[j]) = Want(q.nets[j])>>,
    <<"C07.slow",   \A j \in 1..Len(q.nets) : q.nets[j].slow => NetSet(q.nets[j]) = Want(q.nets[j])>>,
    <<"C07.once",   \A j \in 1..Len(q.nets) :
                       Len(q.nets[j].links) = Cardinality({ <<e[1], e[2]>> : e \in NetSet(q.nets[j]) })>>,
    <<"C07.transpose", \A slow \in BOOLEAN, auto \in BOOLEAN :
                       NetSet(Net(slow, FALSE, auto)) = Transpose(NetSet(Net(slow, TRUE, auto)))>>,
    <<"C07.tallies", \A j \in 1..Len(q.nets) : ~q.nets[j].slow =>
                       LET tal == q.nets[j].tal IN
                       /\ { tal[i].id : i \in 1..Len(tal) } = Wes
                       /\ Len(tal) = Cardinality(Wes)
                       /\ \A i \in 1..Len(tal) :
                            /\ tal[i].c = Cardinality({ p \in CSet(o) : RPres(q, p) = tal[i].id })
                            /\ tal[i].u = Cardinality({ p \in PSet(o) \ CSet(o) : RPres(q, p) = tal[i].id })>>
  >>)

(* C08 *)
WeLinkClauses(o, q) ==
  LET T == OutT(o)
      TripSet(r) == { <<r.links[j].s, r.links[j].t, r.links[j].w>> : j \in 1..Len(r.links) }
      Want(r) ==
        LET M == Members(q, r.id) IN
        { e \in T : e[1] \in M /\ ((r.int /\ RPres(q, e[2]) = r.id) \/ (r.out /\ RPres(q, e[2]) # r.id)) }
        \cup (IF r.inb THEN { e \in T : e[2] \in M /\ RPres(q, e[1]) # r.id } ELSE {})
  IN FailNamesQ(<<
    <<"C08.nofail",    (\A j \in 1..Len(q.pl) : q.pl[j].exc = "") /\ (\A j \in 1..Len(q.cit) : q.cit[j].exc = "")>>,
    <<"C08.pagelinks", \A j \in 1..Len(q.pl) : TripSet(q.pl[j]) = Want(q.pl[j])>>,
    <<"C08.once",      \A j \in 1..Len(q.pl) :
                          Len(q.pl[j].links) = Cardinality({ <<e[1], e[2]>> : e \in TripSet(q.pl[j]) })>>,
    <<"C08.cited",     \A j \in 1..Len(q.cit) :
                          SeqSet(q.cit[j].cited) = { RPres(q, e[2]) : e \in { x \in T : x[1] \in Members(q, q.cit[j].id) } }>>,
    <<"C08.citing",    \A j \in 1..Len(q.cit) :
                          SeqSet(q.cit[j].citing) = { RPres(q, e[1]) : e \in { x \in T : x[2] \in Members(q, q.cit[j].id) } }>>,
    <<"C08.degree",    \A j \in 1..Len(q.cit) :
                          /\ q.cit[j].od = Cardinality(SeqSet(q.cit[j].cited))
                          /\ q.cit[j].idg = Cardinality(SeqSet(q.cit[j].citing))
                          /\ q.cit[j].dg = q.cit[j].od + q.cit[j].idg>>,
    <<"C08.membership", \A j \in 1..Len(q.wp) :
                          LSet(q.wp[j].pages) = { p \in PSet(o) : RPres(q, p) = q.wp[j].id }>>
  >>)

(* C13 *)
HierarchyClauses(o, q) ==
  LET A == [we |-> WSet(o)] IN
  FailNamesQ(<<
    <<"C13.nofail",   \A j \in 1..Len(q.hier) : q.hier[j].exc = "">>,
    <<"C13.parents",  \A j \in 1..Len(q.hier) : SeqSet(q.hier[j].parents) = Parents(A, q.hier[j].id)>>,
    <<"C13.children", \A j \in 1..Len(q.hier) : SeqSet(q.hier[j].children) = Children(A, q.hier[j].id)>>,
    <<"C13.once",     \A j \in 1..Len(q.hier) :
                         /\ Len(q.hier[j].parents) = Cardinality(SeqSet(q.hier[j].parents))
                         /\ Len(q.hier[j].children) = Cardinality(SeqSet(q.hier[j].children))>>
  >>)

(* C20 *)
TopClauses(o, q) ==
  LET T == OutT(o)
      True(p) == Cardinality({ e \in T : e[2] = p })
      Eff(p)  == IF True(p) = 0 THEN 1 ELSE True(p)      \* known finding F9: 0 reported as 1
      OwnPrefix(r, p) ==       \* the prefix of the webentity under which the traversal meets p
        LET S == { i \in 1..Len(WpRow(q, r.id).ps) : IsPrefixOf(WpRow(q, r.id).ps[i], p) }
        IN IF S = {} THEN <<>>      \* total: a listed page under none of the prefixes (C20.subset then fails)
           ELSE WpRow(q, r.id).ps[CHOOSE i \in S : \A k \in S : Len(WpRow(q, r.id).ps[k]) <= Len(WpRow(q, r.id).ps[i])]
      Cands(r) == { p \in Members(q, r.id) : r.depth = -1 \/ Len(p) - Len(OwnPrefix(r, p)) <= r.depth }
      Listed(r) == LSet(r.top)
      Subset(r) == Listed(r) \subseteq Cands(r) /\ Len(r.top) = Cardinality(Listed(r))
      Size(r)   == Len(r.top) = Min(r.k, Cardinality(Cands(r)))
      Order(r)  == \A j \in 1..(Len(r.top) - 1) : r.top[j].n >= r.top[j + 1].n
      Deg(r, N(_)) == \A j \in 1..Len(r.top) : r.top[j].n = N(r.top[j].l)
      TopK(r, N(_)) == \A p \in Cands(r) \ Listed(r) : \A j \in 1..Len(r.top) : N(p) <= r.top[j].n
      AllTrue == \A j \in 1..Len(q.top) : Deg(q.top[j], True) /\ TopK(q.top[j], True)
      AllEff  == \A j \in 1..Len(q.top) : Deg(q.top[j], Eff) /\ TopK(q.top[j], Eff)
  IN FailNamesQ(<<
    <<"C20.nofail", \A j \in 1..Len(q.top) : q.top[j].exc = "">>,
    <<"C20.subset", \A j \in 1..Len(q.top) : Subset(q.top[j])>>,
    <<"C20.size",   \A j \in 1..Len(q.top) : Size(q.top[j])>>,
    <<"C20.order",  \A j \in 1..Len(q.top) : Order(q.top[j])>>,
    <<"C20.indegree", \A j \in 1..Len(q.top) : Deg(q.top[j], Eff)>>,
    <<"C20.topk",   \A j \in 1..Len(q.top) : TopK(q.top[j], Eff)>>,
    <<"C20.zero_as_one", AllEff => AllTrue>>
  >>)

(***************************************************************************)
(* C09 / C10: the two paginators (traph.paginate_webentity_pages and        *)
(* paginate_webentity_pagelinks), transcribed.  A token is (prefix index,   *)
(* path); the path is logged as its base-4 digits (1 left, 2 child,        *)
(* 3 right).  Prefix indices are 0-based in tokens, as in the code.        *)
(***************************************************************************)
(* every node met by the in-order traversal, prefix by prefix from prefix   *)
(* index i0 (0-based), resuming inside the first one: [i, b, l, path]       *)
RECURSIVE PagItems(_, _, _, _, _, _)
PagItems(tr, ps, i, i0, hasResume, cmp) ==
  IF i >= Len(ps) THEN <<>>
  ELSE LET p == ps[i + 1]
           n == LruNode(tr, p)
           it == WeInOrder(tr, n, p, hasResume /\ i = i0, cmp)
       IN [j \in 1..Len(it) |-> [i |-> i, b |-> it[j][1], l |-> it[j][2], path |-> it[j][3]]]
          \o PagItems(tr, ps, i + 1, i0, hasResume, cmp)

(* the request is answerable: every prefix from i0 on exists, and the token *)
(* path can be walked from the first one                                    *)
PagOK(tr, ps, i0, hasResume, cmp) ==
  /\ \A i \in (i0 + 1)..Len(ps) : LruNode(tr, ps[i]) # 0
  /\ (hasResume /\ i0 < Len(ps)) => PathWalkable(tr, LruNode(tr, ps[i0 + 1]), cmp)

(* paginate_webentity_pages; k = 0 stands for page_count None *)
PagPages(tr, ps, k, i0, hasResume, cmp, crawledOnly) ==
  LET items == SelectSeq(PagItems(tr, ps, i0, i0, hasResume, cmp),
                         LAMBDA e : tr[e.b].pg /\ (~crawledOnly \/ tr[e.b].cr))
      Row(e) == [l |-> e.l, cr |-> tr[e.b].cr]
  IN IF k = 0 \/ Len(items) <= k
     THEN [done |-> TRUE, pages |-> [j \in 1..Len(items) |-> Row(items[j])], ti |-> 0, tpath |-> <<>>]
     ELSE [done |-> FALSE, pages |-> [j \in 1..k |-> Row(items[j])],
           ti |-> items[k].i, tpath |-> items[k].path]

(* the outlinks of page block b kept by the switches, as the code lists them *)
KeptLinks(tr, ls, b, lru, weid, internal, outbound) ==
  LET w == Weighted(ls, tr[b].o)
      keep == SelectSeq(w, LAMBDA e : LET tw == WindupWe(tr, e[1]) IN
                                      (outbound /\ tw # weid) \/ (internal /\ tw = weid))
  IN [j \in 1..Len(keep) |-> <<lru, Windup(tr, keep[j][1]), keep[j][2]>>]

RECURSIVE PagLinksScan(_, _, _, _, _, _, _, _, _)
PagLinksScan(tr, ls, items, j, weid, internal, outbound, k, acc) ==
  \* acc: [n, links, li, lpath, has]  (has: some page was processed, i.e. last_path is set)
  IF j > Len(items)
  THEN [done |-> TRUE, n |-> acc.n, links |-> acc.links, ti |-> 0, tpath |-> <<>>, tnone |-> FALSE]
  ELSE LET e == items[j] IN
       IF tr[e.b].o = 0
       THEN PagLinksScan(tr, ls, items, j + 1, weid, internal, outbound, k,
                         [acc EXCEPT !.li = e.i, !.lpath = e.path, !.has = TRUE])
       ELSE LET nl == KeptLinks(tr, ls, e.b, e.l, weid, internal, outbound) IN
            IF nl # <<>> /\ k # 0 /\ acc.n + 1 > k
            THEN [done |-> FALSE, n |-> acc.n, links |-> acc.links, ti |-> acc.li, tpath |-> acc.lpath,
                  tnone |-> ~acc.has]
            ELSE PagLinksScan(tr, ls, items, j + 1, weid, internal, outbound, k,
                              [n |-> IF nl # <<>> THEN acc.n + 1 ELSE acc.n,
                               links |-> acc.links \o nl, li |-> e.i, lpath |-> e.path, has |-> TRUE])

PagLinks(tr, ls, ps, weid, internal, outbound, k, i0, hasResume, cmp) ==
  LET items == SelectSeq(PagItems(tr, ps, i0, i0, hasResume, cmp), LAMBDA e : tr[e.b].pg) IN
  PagLinksScan(tr, ls, items, 1, weid, internal, outbound, k,
               [n |-> 0, links |-> <<>>, li |-> 0, lpath |-> <<>>, has |-> FALSE])

(* ascending order of the pages of one prefix; prefixes in the given order *)
RECURSIVE SortedSeq(_)
SortedSeq(S) ==
  IF S = {} THEN <<>>
  ELSE LET m == CHOOSE x \in S : \A y \in S : x = y \/ LruLess(x, y) IN <<m>> \o SortedSeq(S \ {m})

PagSessionClauses(post, o, S) ==
  \* S.a: id ps k co hasTok ti tpath ; S.q.pag: answer + session bookkeeping
  LET a == S.a  r == S.q.pag
      want == IF PagOK(post.trie, a.ps, a.ti, a.hasTok, a.tpath)
              THEN PagPages(post.trie, a.ps, a.k, a.ti, a.hasTok, a.tpath, a.co)
              ELSE [done |-> FALSE, pages |-> <<>>, ti |-> 0, tpath |-> <<>>]
      got == LSet(r.pages)
      \* total: a page under none of the given prefixes (C09.member then fails) sorts first
      OwnIdx(p) == IF \A i \in 1..Len(a.ps) : ~IsPrefixOf(a.ps[i], p) THEN 0
                   ELSE CHOOSE i \in 1..Len(a.ps) :
                     /\ IsPrefixOf(a.ps[i], p)
                     /\ \A k2 \in 1..Len(a.ps) : IsPrefixOf(a.ps[k2], p) => Len(a.ps[k2]) <= Len(a.ps[i])
      all == r.sofar \o [j \in 1..Len(r.pages) |-> r.pages[j].l]
      \* the property speaks of "a webentity's pages ... prefix by prefix": the prefixes given are the
      \* webentity's current prefixes (a session outlives that when the webentity is edited meanwhile)
      current == SeqSet(a.ps) = { e[1] : e \in { x \in WSet(o) : x[2] = a.id } }
  IN FailNamesQ(<<
    <<"C09.nofail",   r.exc = "">>,
    <<"bind.pag",     r.exc = "" => (r.done = want.done /\ r.pages = want.pages
                                      /\ (~r.done => (r.ti = want.ti /\ r.tpath = want.tpath)))>>,
    <<"C09.size",     r.exc = "" => (IF r.done THEN (a.k = 0 \/ Len(r.pages) <= a.k)
                                      ELSE (Len(r.pages) = a.k /\ r.hasToken))>>,
    <<"C09.counts",   r.exc = "" => (r.count = Len(r.pages)
                                      /\ r.ccount = Cardinality({ j \in 1..Len(r.pages) : r.pages[j].cr }))>>,
    <<"C09.marks",    \A j \in 1..Len(r.pages) :
                         r.pages[j].cr = (r.pages[j].l \in CSet(o)) /\ (a.co => r.pages[j].cr)>>,
    \* across the answers of a session: claimed when only page insertions happened in between
    <<"C09.nodup",    (r.pure /\ current) => Len(all) = Cardinality(SeqSet(all))>>,
    <<"C09.order",    LET seq == IF r.pure THEN all ELSE [j \in 1..Len(r.pages) |-> r.pages[j].l] IN
                      current =>
                      \A i \in 1..Len(seq) : \A j \in 1..Len(seq) : i < j =>
                         \/ OwnIdx(seq[i]) < OwnIdx(seq[j])
                         \/ (OwnIdx(seq[i]) = OwnIdx(seq[j]) /\ LruLess(seq[i], seq[j]))>>,
    <<"C09.member",   got \subseteq LSet(r.wpages)>>,
    <<"C09.complete", (r.exc = "" /\ r.done /\ r.pure /\ current) =>
                         { p \in SeqSet(r.through) : ~a.co \/ p \in SeqSet(r.cthrough) } \subseteq SeqSet(all)>>,
    <<"C09.token",    r.tokenRoundTrip>>,
    <<"bind.token",   r.tokenIndep>>
  >>)

PagLinkSessionClauses(post, o, S) ==
  LET a == S.a  r == S.q.pagl
      want == IF PagOK(post.trie, a.ps, a.ti, a.hasTok, a.tpath)
              THEN PagLinks(post.trie, post.ls, a.ps, a.id, a.int, a.out, a.k, a.ti, a.hasTok, a.tpath)
              ELSE [done |-> FALSE, n |-> 0, links |-> <<>>, ti |-> 0, tpath |-> <<>>, tnone |-> FALSE]
      Trip(x) == { <<x[j].s, x[j].t, x[j].w>> : j \in 1..Len(x) }
      gotSeq == [j \in 1..Len(r.links) |-> <<r.links[j].s, r.links[j].t, r.links[j].w>>]
      all == Trip(r.sofar) \cup Trip(r.links)
      srcs == { r.links[j].s : j \in 1..Len(r.links) }
  IN FailNamesQ(<<
    <<"C10.resume",   r.exc = "">>,
    <<"bind.pagl",    r.exc = "" => (r.done = want.done /\ gotSeq = want.links
                                      /\ (~r.done => (~want.tnone /\ r.ti = want.ti /\ r.tpath = want.tpath)))>>,
    <<"C10.size",     r.exc = "" => (r.nsrc = Cardinality(srcs) /\ r.nlinks = Len(r.links)
                                      /\ (IF r.done THEN (a.k = 0 \/ r.nsrc <= a.k)
                                           ELSE (r.nsrc = a.k /\ r.hasToken)))>>,
    \* across the answers of a session: C10 speaks of a reachable state, i.e. no write in between
    <<"C10.once",     IF r.quiet THEN Len(r.sofar) + Len(r.links) = Cardinality({ <<e[1], e[2]>> : e \in all })
                      ELSE (SeqSet(a.ps) = { e[1] : e \in { x \in WSet(o) : x[2] = a.id } }) =>
                           Len(r.links) = Cardinality({ <<e[1], e[2]>> : e \in Trip(r.links) })>>,
    <<"C10.subset",   Trip(r.links) \subseteq Trip(r.full)>>,
    <<"C10.union",    (r.exc = "" /\ r.done /\ r.quiet) => all = Trip(r.full)>>,
    <<"C10.token",    r.tokenRoundTrip>>,
    <<"bind.token",   r.tokenIndep>>
  >>)

(***************************************************************************)
(* Block-level transcriptions of the remaining query algorithms, used by   *)
(* the model checker (TraphMC) to show, in every reachable state, that the *)
(* algorithm computes the declarative answer of TraphAbs.                  *)
(***************************************************************************)
(* get_webentities_links_iter (fast): resolve every page by carrying the    *)
(* nearest webentity down the traversal, then aggregate the link lists      *)
NetFast(tr, ls, out, auto) ==
  LET d == DfsWeRoot(tr)
      pageWe == { <<d[j][1], d[j][2]>> : j \in { x \in 1..Len(d) : tr[d[x][1]].pg /\ d[x][2] # 0 } }
      WeOfPage(b) == IF \E e \in pageWe : e[1] = b THEN (CHOOSE e \in pageWe : e[1] = b)[2] ELSE 0
      edges == UNION { LET w == Weighted(ls, IF out THEN tr[e[1]].o ELSE tr[e[1]].i) IN
                       { <<e[1], w[j][1], w[j][2]>> : j \in 1..Len(w) }
                       : e \in { x \in pageWe : (IF out THEN tr[x[1]].o ELSE tr[x[1]].i) # 0 } }
      prs == { <<WeOfPage(x[1]), WeOfPage(x[2])>> : x \in edges }
      ok  == { pr \in prs : pr[2] # 0 /\ (auto \/ pr[1] # pr[2]) }
  IN { <<pr[1], pr[2], SumW({ x \in edges : WeOfPage(x[1]) = pr[1] /\ WeOfPage(x[2]) = pr[2] })>> : pr \in ok }

(* get_webentities_links_slow_iter: targets resolved bottom-up *)
NetSlow(tr, ls, out, auto) ==
  LET d == DfsWeRoot(tr)
      src == { <<d[j][1], d[j][2]>> : j \in { x \in 1..Len(d) :
                 tr[d[x][1]].pg /\ d[x][2] # 0 /\ (IF out THEN tr[d[x][1]].o ELSE tr[d[x][1]].i) # 0 } }
      edges == UNION { LET w == Weighted(ls, IF out THEN tr[e[1]].o ELSE tr[e[1]].i) IN
                       { <<e[2], WindupWe(tr, w[j][1]), e[1], w[j][1], w[j][2]>> : j \in 1..Len(w) } : e \in src }
      ok == { <<x[1], x[2]>> : x \in { y \in edges : y[2] # 0 /\ (auto \/ y[1] # y[2]) } }
  IN { <<pr[1], pr[2], SumW({ <<x[3], x[4], x[5]>> : x \in { y \in edges : y[1] = pr[1] /\ y[2] = pr[2] } })>> : pr \in ok }

(* get_webentity_pagelinks *)
WeLinksBlocks(tr, ls, w, ps, inb, internal, outb) ==
  LET pgs == UNION { LET n == LruNode(tr, ps[i]) IN
                     IF n = 0 THEN {} ELSE
                     LET d == WeDfsFrom(tr, n, ps[i], Unlimited) IN { d[j][1] : j \in { x \in 1..Len(d) : tr[d[x][1]].pg } }
                     : i \in 1..Len(ps) }
      outs == UNION { LET wl == Weighted(ls, tr[b].o) IN
                      { <<Windup(tr, b), Windup(tr, wl[j][1]), wl[j][2]>> :
                          j \in { x \in 1..Len(wl) : LET tw == WindupWe(tr, wl[x][1]) IN
                                                       (outb /\ tw # w) \/ (internal /\ tw = w) } }
                      : b \in { x \in pgs : tr[x].o # 0 /\ (outb \/ internal) } }
      ins  == UNION { LET wl == Weighted(ls, tr[b].i) IN
                      { <<Windup(tr, wl[j][1]), Windup(tr, b), wl[j][2]>> :
                          j \in { x \in 1..Len(wl) : WindupWe(tr, wl[x][1]) # w } }
                      : b \in { x \in pgs : tr[x].i # 0 /\ inb } }
  IN outs \cup ins

(* get_webentity_child_webentities (with the pruning flag) / parents *)
ChildrenBlocks(tr, w, ps) ==
  UNION { LET n == LruNode(tr, ps[i]) IN
          IF n = 0 THEN {} ELSE
          LET d == DfsFrom(tr, n, ps[i], TRUE) IN
          { tr[d[j][1]].we : j \in { x \in 1..Len(d) : tr[d[x][1]].we # 0 /\ tr[d[x][1]].we # w } }
          : i \in 1..Len(ps) }
ParentsBlocks(tr, w, ps) ==
  UNION { LET n == LruNode(tr, ps[i]) IN
          IF n = 0 THEN {} ELSE
          LET c == ParentChain(tr, n) IN
          { tr[c[j]].we : j \in { x \in 1..Len(c) : tr[c[x]].we # 0 /\ tr[c[x]].we # w } }
          : i \in 1..Len(ps) }

(* get_webentity_most_linked_pages: a min-heap of (indegree, arrival, lru)   *)
(* keeps the k largest; the code reads the link-store header as a stub for   *)
(* a page without inbound links, hence max(1, .) (known finding F9)          *)
CodeInDegree(tr, ls, b) == IF tr[b].i = 0 THEN 1 ELSE Len(Deduped(ls, tr[b].i))
TopBlocks(tr, ls, ps, k, depth) ==
  LET RECURSIVE cat(_)
      cat(i) == IF i > Len(ps) THEN <<>>
                ELSE LET n == LruNode(tr, ps[i])
                         d == IF n = 0 THEN <<>> ELSE WeDfsFrom(tr, n, ps[i], depth)
                     IN SelectSeq(d, LAMBDA e : tr[e[1]].pg) \o cat(i + 1)
      pg == cat(1)
      key(j) == <<CodeInDegree(tr, ls, pg[j][1]), j>>
      Less(a, b) == a[1] < b[1] \/ (a[1] = b[1] /\ a[2] < b[2])
      \* the k largest keys, in decreasing order
      kept == { j \in 1..Len(pg) : Cardinality({ x \in 1..Len(pg) : Less(key(j), key(x)) }) < k }
      RECURSIVE sorted(_)
      sorted(S) == IF S = {} THEN <<>>
                   ELSE LET m == CHOOSE j \in S : \A x \in S : x = j \/ Less(key(x), key(j))
                        IN <<[l |-> pg[m][2], n |-> key(m)[1]]>> \o sorted(S \ {m})
  IN sorted(kept)

(* C14: no read-only request changes a byte of either store (hashes and the  *)
(* count of storage writes are taken by the harness around every call)      *)
ReadOnlyClauses(q) ==
  FailNamesQ(<<
    <<"C14.same",   \A j \in 1..Len(q.ro) : q.ro[j].changed = 0>>,
    <<"bind.nowrite", \A j \in 1..Len(q.ro) : q.ro[j].wrote = 0>>
  >>)

QueryClauses(post, rm, d, S) ==
  LET q == S.q  o == S.obs IN
     (IF Has(q, "lookup")  THEN LookupClauses(post, q) ELSE <<>>)
  \o (IF Has(q, "lo")      THEN LinkClauses(post, o, q) ELSE <<>>)
  \o (IF Has(q, "res")     THEN ResolveClauses(post, o, q) ELSE <<>>)
  \o (IF Has(q, "pot")     THEN PotentialClauses(post, rm, d, o, q) ELSE <<>>)
  \o (IF Has(q, "metrics") THEN MetricsClauses(post, o, q) ELSE <<>>)
  \o (IF Has(q, "wp") /\ Has(q, "pres") /\ ~Has(q, "pl") THEN WePagesClauses(post, o, q) ELSE <<>>)
  \o (IF Has(q, "nets")    THEN NetworkClauses(o, q) ELSE <<>>)
  \o (IF Has(q, "pl")      THEN WeLinkClauses(o, q) ELSE <<>>)
  \o (IF Has(q, "hier")    THEN HierarchyClauses(o, q) ELSE <<>>)
  \o (IF Has(q, "top")     THEN TopClauses(o, q) ELSE <<>>)
  \o (IF Has(q, "pag")     THEN PagSessionClauses(post, o, S) ELSE <<>>)
  \o (IF Has(q, "pagl")    THEN PagLinkSessionClauses(post, o, S) ELSE <<>>)
  \o (IF Has(q, "ro")      THEN ReadOnlyClauses(q) ELSE <<>>)
  \o (IF Has(q, "mmap")    THEN FailNamesQ(<< <<"C15.mmap", q.mmap.bad = 0>> >>) ELSE <<>>)
=============================================================================
