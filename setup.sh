#!/bin/sh
# Offline setup: nothing to build; check that the tools are there and the specification parses.
set -e
cd "$(dirname "$0")"
command -v java >/dev/null
test -f /opt/veriftools/tla/tla2tools.jar
/venv/bin/python -c "import sys; sys.path.insert(0,'harness'); import impl" 
jt=$(mktemp -d /tmp/verif_setup_XXXXXX)      # SANY unpacks its standard modules into java.io.tmpdir
trap 'rm -rf "$jt"' EXIT
for d in spec/mc/*/; do
  n=$(basename "$d")
  (cd "$d" && java -Djava.io.tmpdir="$jt" -DTLA-Library=/verif/spec -cp /opt/veriftools/tla/tla2tools.jar:/opt/veriftools/tla/CommunityModules-deps.jar tla2sany.SANY "MC_$n.tla" >/tmp/sany_$n.log 2>&1) || { cat /tmp/sany_$n.log; exit 1; }
  rm -f /tmp/sany_$n.log
done
echo "setup ok"
